//! C05 — a malformed UPDATE never installs a route; the session resets only if
//! it must (packet-level half: `validate_message(try_parse(bytes), is_ebgp)`).
//!
//! Workload: valid UPDATE templates assembled byte by byte (legacy IPv4 with and
//! without withdrawn routes, MP_REACH / MP_UNREACH for nine families, all usual
//! path attributes, eBGP / iBGP / confed receivers, 2- and 4-octet AS sessions,
//! ADD-PATH on/off) and a corruption engine that applies a recorded list of
//! RFC 7606 faults.  Oracle: computed from the *record* of what the engine did
//! (plus an independent TLV walk of the final bytes), never from the code's
//! `error_attrs`.
//!
//! Clauses (signature = C05/<clause>/<attr-code>/<fault-kind>):
//!   never-installs     Reach emitted for a prefix of an UPDATE that carries a
//!                      fault for which the statement demands withdrawal
//!   treat-as-withdraw  such a prefix was locatable but did not come out as Unreach
//!   discard            route kept although a discardable-faulty attribute is still there
//!   withdrawals-survive  a withdrawal of the same message got lost
//!   reset              Err(Notification) although TLV chain, MP attributes and NLRI are intact
//!   ebgp-filter        LOCAL_PREF / ORIGINATOR_ID / CLUSTER_LIST survive from an external peer
//!   panic              C05/panic/<file>:<line>:<class>
use bytes::BytesMut;
use rbgp_verif::common::*;
use rustybgp_packet::bgp::{Family, FamilyState, Message, PeerCodec, Update};
use rustybgp_packet::{Attribute, Nlri, PathNlri, validate_message};
use std::collections::{BTreeMap, BTreeSet};
use std::sync::Arc;

// ---------------------------------------------------------------- configuration

#[derive(Clone, Copy, PartialEq, Eq, Debug)]
enum Role {
    Ebgp,
    Ibgp,
    Confed,
}

#[derive(Clone, Copy, Debug)]
struct Cfg {
    role: Role,
    two_byte: bool,
    addpath: bool,
}

impl Cfg {
    fn is_ebgp(&self) -> bool {
        // what daemon/src/event/mod.rs passes: true only for a non-confederation external peer
        self.role == Role::Ebgp
    }
    fn name(&self) -> String {
        format!(
            "{:?}/{}{}",
            self.role,
            if self.two_byte { "as2" } else { "as4" },
            if self.addpath { "/addpath" } else { "" }
        )
    }
}

#[derive(Clone, Copy, PartialEq, Eq, Debug)]
enum Fam {
    V4Mp,
    V4Mc,
    V6,
    Vpn4,
    Vpn6,
    Lab4,
    Lab6,
    Evpn,
    Rtc,
}

const FAMS: [Fam; 9] = [Fam::V4Mp, Fam::V4Mc, Fam::V6, Fam::Vpn4, Fam::Vpn6, Fam::Lab4, Fam::Lab6, Fam::Evpn, Fam::Rtc];

impl Fam {
    fn afi_safi(self) -> (u16, u8) {
        match self {
            Fam::V4Mp => (1, 1),
            Fam::V4Mc => (1, 2),
            Fam::V6 => (2, 1),
            Fam::Vpn4 => (1, 128),
            Fam::Vpn6 => (2, 128),
            Fam::Lab4 => (1, 4),
            Fam::Lab6 => (2, 4),
            Fam::Evpn => (25, 70),
            Fam::Rtc => (1, 132),
        }
    }
    fn family(self) -> Family {
        let (a, s) = self.afi_safi();
        Family::new(a, s)
    }
}

fn all_families() -> Vec<Family> {
    let mut v: Vec<Family> = FAMS.iter().map(|f| f.family()).collect();
    v.push(Family::IPV4);
    v
}

fn mk_codec(cfg: &Cfg) -> PeerCodec {
    let mut c = PeerCodec::new();
    for f in all_families() {
        c.set_family(f, FamilyState { addpath_rx: cfg.addpath, addpath_tx: false });
    }
    c.two_byte_as = cfg.two_byte;
    c
}

// ---------------------------------------------------------------- templates

const ORIGIN: u8 = 1;
const AS_PATH: u8 = 2;
const NEXT_HOP: u8 = 3;
const MED: u8 = 4;
const LOCAL_PREF: u8 = 5;
const ATOMIC_AGGREGATE: u8 = 6;
const AGGREGATOR: u8 = 7;
const COMMUNITY: u8 = 8;
const ORIGINATOR_ID: u8 = 9;
const CLUSTER_LIST: u8 = 10;
const MP_REACH: u8 = 14;
const MP_UNREACH: u8 = 15;
const EXT_COMMUNITY: u8 = 16;
const AS4_PATH: u8 = 17;
const AS4_AGGREGATOR: u8 = 18;
const AIGP: u8 = 26;
const LARGE_COMMUNITY: u8 = 32;

const F_OPT: u8 = 0x80;
const F_TRANS: u8 = 0x40;
const F_PARTIAL: u8 = 0x20;
const F_EXT: u8 = 0x10;

/// Flags the RFCs specify for the attribute types this workload knows (RFC 4271
/// §5, 4456, 4760, 4360, 6793, 7311, 8092).  Unknown codes: None.
fn spec_flags(code: u8) -> Option<u8> {
    Some(match code {
        ORIGIN | AS_PATH | NEXT_HOP | LOCAL_PREF | ATOMIC_AGGREGATE => F_TRANS,
        MED | ORIGINATOR_ID | CLUSTER_LIST | MP_REACH | MP_UNREACH | AIGP => F_OPT,
        AGGREGATOR | COMMUNITY | EXT_COMMUNITY | AS4_PATH | AS4_AGGREGATOR | LARGE_COMMUNITY => F_OPT | F_TRANS,
        _ => return None,
    })
}

#[derive(Clone, Debug)]
struct TAttr {
    code: u8,
    flags: u8,
    val: Vec<u8>,
}

#[derive(Clone, Debug)]
struct Tmpl {
    cfg: Cfg,
    scenario: &'static str,
    withdrawn: Vec<Vec<u8>>,
    nlri: Vec<Vec<u8>>,
    /// human-readable legacy prefixes, for the independent identity check
    nlri_txt: Vec<String>,
    attrs: Vec<TAttr>,
    mp_fam: Option<Fam>,
    n_mp_reach: usize,
    n_mp_unreach: usize,
}

struct PfxGen {
    ctr: u8,
}

impl PfxGen {
    fn v4(&mut self, rng: &mut Rng) -> (u8, [u8; 4]) {
        self.ctr = self.ctr.wrapping_add(1);
        let len = rng.range(16, 32) as u8;
        let mut a = [10 + (rng.below(3) as u8) * 90, self.ctr, rng.next_u64() as u8, rng.next_u64() as u8];
        mask_bits(&mut a, len);
        (len, a)
    }
    fn v6(&mut self, rng: &mut Rng) -> (u8, [u8; 16]) {
        self.ctr = self.ctr.wrapping_add(1);
        let len = rng.range(48, 128) as u8;
        let mut a = [0u8; 16];
        a[0] = 0x20;
        a[1] = 0x01;
        a[2] = 0x0d;
        a[3] = 0xb8;
        a[5] = self.ctr;
        for b in a.iter_mut().skip(6) {
            *b = rng.next_u64() as u8;
        }
        mask_bits(&mut a, len);
        (len, a)
    }
}

fn mask_bits(a: &mut [u8], len: u8) {
    let full = (len / 8) as usize;
    let rem = len % 8;
    for (i, b) in a.iter_mut().enumerate() {
        if i < full {
            continue;
        }
        if i == full && rem != 0 {
            *b &= 0xffu8 << (8 - rem);
        } else {
            *b = 0;
        }
    }
}

fn put_pathid(out: &mut Vec<u8>, cfg: &Cfg, rng: &mut Rng) {
    if cfg.addpath {
        out.extend_from_slice(&(rng.range(1, 9) as u32).to_be_bytes());
    }
}

fn enc_plain(len: u8, addr: &[u8]) -> Vec<u8> {
    let mut o = vec![len];
    o.extend_from_slice(&addr[..(len as usize).div_ceil(8)]);
    o
}

fn label(rng: &mut Rng) -> [u8; 3] {
    let l = rng.range(16, 0xfffff) as u32;
    let raw = (l << 4) | 1; // bottom of stack
    [(raw >> 16) as u8, (raw >> 8) as u8, raw as u8]
}

fn rd(rng: &mut Rng) -> [u8; 8] {
    let mut o = [0u8; 8];
    let t = rng.below(3) as u8;
    o[1] = t;
    for b in o.iter_mut().skip(2) {
        *b = rng.next_u64() as u8;
    }
    o
}

/// one NLRI of family `f` on the wire (without path id)
fn mp_nlri(f: Fam, reach: bool, pg: &mut PfxGen, rng: &mut Rng) -> Vec<u8> {
    match f {
        Fam::V4Mp | Fam::V4Mc => {
            let (l, a) = pg.v4(rng);
            enc_plain(l, &a)
        }
        Fam::V6 => {
            let (l, a) = pg.v6(rng);
            enc_plain(l, &a)
        }
        Fam::Vpn4 | Fam::Vpn6 => {
            let (l, a): (u8, Vec<u8>) = if f == Fam::Vpn4 {
                let (l, a) = pg.v4(rng);
                (l, a.to_vec())
            } else {
                let (l, a) = pg.v6(rng);
                (l.min(120), a.to_vec())
            };
            let mut o = vec![24 + 64 + l];
            o.extend_from_slice(&label(rng));
            o.extend_from_slice(&rd(rng));
            o.extend_from_slice(&a[..(l as usize).div_ceil(8)]);
            o
        }
        Fam::Lab4 | Fam::Lab6 => {
            let (l, a): (u8, Vec<u8>) = if f == Fam::Lab4 {
                let (l, a) = pg.v4(rng);
                (l, a.to_vec())
            } else {
                let (l, a) = pg.v6(rng);
                (l, a.to_vec())
            };
            let mut o = vec![24 + l];
            if reach {
                o.extend_from_slice(&label(rng));
            } else {
                o.extend_from_slice(&[0x80, 0x00, 0x00]);
            }
            o.extend_from_slice(&a[..(l as usize).div_ceil(8)]);
            o
        }
        Fam::Evpn => {
            pg.ctr = pg.ctr.wrapping_add(1);
            let mut d = Vec::new();
            let t = rng.range(1, 3) as u8;
            d.extend_from_slice(&rd(rng));
            match t {
                1 => {
                    d.extend_from_slice(&rng.bytes(10));
                    d.extend_from_slice(&[0, 0, 0, pg.ctr]);
                    d.extend_from_slice(&rng.bytes(3));
                }
                2 => {
                    d.extend_from_slice(&rng.bytes(10));
                    d.extend_from_slice(&[0, 0, 0, pg.ctr]);
                    d.push(48);
                    d.extend_from_slice(&rng.bytes(6));
                    if rng.bool() {
                        d.push(0);
                    } else {
                        d.push(32);
                        d.extend_from_slice(&[192, 0, 2, pg.ctr]);
                    }
                    d.extend_from_slice(&rng.bytes(3));
                }
                _ => {
                    d.extend_from_slice(&[0, 0, 0, pg.ctr]);
                    d.push(32);
                    d.extend_from_slice(&[198, 51, 100, pg.ctr]);
                }
            }
            let mut o = vec![t, d.len() as u8];
            o.extend_from_slice(&d);
            o
        }
        Fam::Rtc => {
            pg.ctr = pg.ctr.wrapping_add(1);
            let mut o = vec![96];
            o.extend_from_slice(&(64512u32 + pg.ctr as u32).to_be_bytes());
            o.extend_from_slice(&[0x00, 0x02, 0xfd, 0xe8, 0, 0, pg.ctr, rng.next_u64() as u8]);
            o
        }
    }
}

fn mp_nexthop(f: Fam, rng: &mut Rng) -> Vec<u8> {
    let v4 = |rng: &mut Rng| vec![192, 0, 2, rng.range(1, 254) as u8];
    let v6 = |rng: &mut Rng| {
        let mut a = vec![0x20, 0x01, 0x0d, 0xb8, 0, 0, 0, 0, 0, 0, 0, 0, 0, 0, 0, 0];
        a[15] = rng.range(1, 254) as u8;
        a
    };
    match f {
        Fam::V4Mp | Fam::V4Mc | Fam::Lab4 | Fam::Rtc => v4(rng),
        Fam::V6 | Fam::Lab6 => {
            let mut a = v6(rng);
            if rng.chance(1, 3) {
                let mut ll = vec![0xfe, 0x80, 0, 0, 0, 0, 0, 0, 0, 0, 0, 0, 0, 0, 0, 0];
                ll[15] = rng.range(1, 254) as u8;
                a.extend_from_slice(&ll);
            }
            a
        }
        Fam::Vpn4 => {
            let mut a = vec![0u8; 8];
            a.extend_from_slice(&v4(rng));
            a
        }
        Fam::Vpn6 => {
            let mut a = vec![0u8; 8];
            a.extend_from_slice(&v6(rng));
            a
        }
        Fam::Evpn => {
            if rng.bool() {
                v4(rng)
            } else {
                v6(rng)
            }
        }
    }
}

fn rbytes(rng: &mut Rng, unit: usize, max_units: u64) -> Vec<u8> {
    let n = rng.range(1, max_units) as usize;
    rng.bytes(unit * n)
}

fn rbytes0(rng: &mut Rng, max: u64) -> Vec<u8> {
    let n = rng.range(0, max) as usize;
    rng.bytes(n)
}

fn push_asn(out: &mut Vec<u8>, asn: u32, two_byte: bool) {
    if two_byte {
        out.extend_from_slice(&(asn as u16).to_be_bytes());
    } else {
        out.extend_from_slice(&asn.to_be_bytes());
    }
}

/// (AS_PATH value in session width, AS4_PATH value or None)
fn gen_as_path(cfg: &Cfg, rng: &mut Rng, want_as4: bool) -> (Vec<u8>, Option<Vec<u8>>) {
    let mut segs: Vec<(u8, Vec<u32>)> = Vec::new();
    match cfg.role {
        Role::Ibgp if rng.bool() => {}
        Role::Confed => {
            segs.push((3, (0..rng.range(1, 3)).map(|_| 64600 + rng.below(50) as u32).collect()));
            if rng.bool() {
                segs.push((2, (0..rng.range(1, 3)).map(|_| 100 + rng.below(60000) as u32).collect()));
            }
        }
        _ => {
            for _ in 0..rng.range(1, 3) {
                let t = if rng.chance(1, 5) { 1 } else { 2 };
                let n = rng.range(1, 4);
                segs.push((
                    t,
                    (0..n)
                        .map(|_| if rng.chance(1, 4) { 70000 + rng.below(100000) as u32 } else { 100 + rng.below(60000) as u32 })
                        .collect(),
                ));
            }
        }
    }
    let mut p = Vec::new();
    for (t, asns) in &segs {
        p.push(*t);
        p.push(asns.len() as u8);
        for a in asns {
            let a = if cfg.two_byte && *a > 65535 { 23456 } else { *a };
            push_asn(&mut p, a, cfg.two_byte);
        }
    }
    let as4 = if want_as4 {
        // the non-confed segments with the real AS numbers (RFC 6793 §4.2.2)
        let mut q = Vec::new();
        for (t, asns) in segs.iter().filter(|(t, _)| *t == 1 || *t == 2) {
            q.push(*t);
            q.push(asns.len() as u8);
            for a in asns {
                q.extend_from_slice(&a.to_be_bytes());
            }
        }
        if q.is_empty() {
            q = vec![2, 1, 0, 1, 0x11, 0x70];
        }
        Some(q)
    } else {
        None
    };
    (p, as4)
}

fn gen_attrs(cfg: &Cfg, rng: &mut Rng, announce_legacy: bool, announce_any: bool) -> Vec<TAttr> {
    let mut v: Vec<TAttr> = Vec::new();
    let full = announce_any || rng.bool();
    if !full {
        return v; // withdraw-only UPDATE without attributes
    }
    let opt = |rng: &mut Rng| rng.chance(35, 100);
    let ptl = |rng: &mut Rng| if rng.chance(1, 6) { F_PARTIAL } else { 0 };
    v.push(TAttr { code: ORIGIN, flags: F_TRANS, val: vec![rng.below(3) as u8] });
    let want_as4 = if cfg.two_byte { rng.chance(40, 100) } else { rng.chance(15, 100) };
    let (asp, as4p) = gen_as_path(cfg, rng, want_as4);
    v.push(TAttr { code: AS_PATH, flags: F_TRANS, val: asp });
    if announce_legacy {
        v.push(TAttr { code: NEXT_HOP, flags: F_TRANS, val: vec![192, 0, 2, rng.range(1, 254) as u8] });
    }
    if opt(rng) {
        v.push(TAttr { code: MED, flags: F_OPT, val: rng.next_u32().to_be_bytes().to_vec() });
    }
    let ibgp_only = match cfg.role {
        Role::Ebgp => 25,
        _ => 40,
    };
    if (cfg.role != Role::Ebgp && rng.chance(9, 10)) || (cfg.role == Role::Ebgp && rng.chance(ibgp_only, 100)) {
        v.push(TAttr { code: LOCAL_PREF, flags: F_TRANS, val: (rng.below(1000) as u32).to_be_bytes().to_vec() });
    }
    if opt(rng) {
        v.push(TAttr { code: ATOMIC_AGGREGATE, flags: F_TRANS, val: vec![] });
    }
    let mut agg4: Option<Vec<u8>> = None;
    if opt(rng) {
        let asn = if rng.chance(1, 3) { 70000 + rng.below(1000) as u32 } else { 100 + rng.below(60000) as u32 };
        let mut b = Vec::new();
        push_asn(&mut b, if cfg.two_byte && asn > 65535 { 23456 } else { asn }, cfg.two_byte);
        let ip = [203, 0, 113, rng.range(1, 254) as u8];
        b.extend_from_slice(&ip);
        v.push(TAttr { code: AGGREGATOR, flags: F_OPT | F_TRANS | ptl(rng), val: b });
        let mut a4 = asn.to_be_bytes().to_vec();
        a4.extend_from_slice(&ip);
        agg4 = Some(a4);
    }
    if opt(rng) {
        v.push(TAttr { code: COMMUNITY, flags: F_OPT | F_TRANS | ptl(rng), val: rbytes(rng, 4, 3) });
    }
    if rng.chance(ibgp_only, 100) {
        v.push(TAttr { code: ORIGINATOR_ID, flags: F_OPT, val: vec![10, 0, 0, rng.range(1, 254) as u8] });
    }
    if rng.chance(ibgp_only, 100) {
        v.push(TAttr { code: CLUSTER_LIST, flags: F_OPT, val: rbytes(rng, 4, 3) });
    }
    if opt(rng) {
        v.push(TAttr { code: EXT_COMMUNITY, flags: F_OPT | F_TRANS | ptl(rng), val: rbytes(rng, 8, 3) });
    }
    if let Some(p) = as4p {
        v.push(TAttr { code: AS4_PATH, flags: F_OPT | F_TRANS | ptl(rng), val: p });
    }
    if want_as4 && let Some(a4) = agg4 {
        v.push(TAttr { code: AS4_AGGREGATOR, flags: F_OPT | F_TRANS | ptl(rng), val: a4 });
    }
    if opt(rng) {
        v.push(TAttr { code: LARGE_COMMUNITY, flags: F_OPT | F_TRANS | ptl(rng), val: rbytes(rng, 12, 2) });
    }
    if opt(rng) {
        let mut b = vec![1, 0, 11];
        b.extend_from_slice(&rng.next_u64().to_be_bytes());
        v.push(TAttr { code: AIGP, flags: F_OPT, val: b });
    }
    if opt(rng) {
        v.push(TAttr { code: 200 + rng.below(8) as u8, flags: F_OPT | F_TRANS | ptl(rng), val: rbytes0(rng, 8) });
    }
    if opt(rng) {
        v.push(TAttr { code: 211 + rng.below(8) as u8, flags: F_OPT, val: rbytes0(rng, 8) });
    }
    v
}


fn gen_template(rng: &mut Rng) -> Tmpl {
    let cfg = Cfg {
        role: *rng.pick(&[Role::Ebgp, Role::Ebgp, Role::Ibgp, Role::Ibgp, Role::Confed]),
        two_byte: rng.chance(2, 5),
        addpath: rng.chance(1, 4),
    };
    // weights: the announcing scenarios dominate
    let scenario = *rng.pick(&["v4", "v4", "v4+wd", "v4+wd", "wd-only", "mp", "mp", "mp", "mp+unreach", "mp+unreach", "unreach-only", "mixed", "mixed"]);
    let mut pg = PfxGen { ctr: 0 };
    let legacy_a = matches!(scenario, "v4" | "v4+wd" | "mixed");
    let legacy_w = matches!(scenario, "v4+wd" | "wd-only" | "mixed");
    let mp_a = matches!(scenario, "mp" | "mp+unreach" | "mixed");
    let mp_w = matches!(scenario, "mp+unreach" | "unreach-only" | "mixed");
    let mut nlri = Vec::new();
    let mut nlri_txt = Vec::new();
    let mut withdrawn = Vec::new();
    if legacy_a {
        for _ in 0..rng.range(1, 4) {
            let (l, a) = pg.v4(rng);
            let mut o = Vec::new();
            put_pathid(&mut o, &cfg, rng);
            o.extend_from_slice(&enc_plain(l, &a));
            nlri.push(o);
            nlri_txt.push(format!("{}.{}.{}.{}/{}", a[0], a[1], a[2], a[3], l));
        }
    }
    if legacy_w {
        for _ in 0..rng.range(1, 3) {
            let (l, a) = pg.v4(rng);
            let mut o = Vec::new();
            put_pathid(&mut o, &cfg, rng);
            o.extend_from_slice(&enc_plain(l, &a));
            withdrawn.push(o);
        }
    }
    let mut attrs = gen_attrs(&cfg, rng, legacy_a, legacy_a || mp_a);
    let mut mp_fam = None;
    let mut n_mp_reach = 0;
    let mut n_mp_unreach = 0;
    if mp_a || mp_w {
        let f = loop {
            let f = *rng.pick(&FAMS);
            // in the mixed scenario the MP family must differ from legacy IPv4 unicast
            if !(scenario == "mixed" && f == Fam::V4Mp) {
                break f;
            }
        };
        mp_fam = Some(f);
        let (afi, safi) = f.afi_safi();
        if mp_a {
            let mut b = afi.to_be_bytes().to_vec();
            b.push(safi);
            let nh = mp_nexthop(f, rng);
            b.push(nh.len() as u8);
            b.extend_from_slice(&nh);
            b.push(0);
            n_mp_reach = rng.range(1, 3) as usize;
            for _ in 0..n_mp_reach {
                put_pathid(&mut b, &cfg, rng);
                b.extend_from_slice(&mp_nlri(f, true, &mut pg, rng));
            }
            attrs.push(TAttr { code: MP_REACH, flags: F_OPT, val: b });
        }
        if mp_w {
            let mut b = afi.to_be_bytes().to_vec();
            b.push(safi);
            n_mp_unreach = rng.range(1, 3) as usize;
            for _ in 0..n_mp_unreach {
                put_pathid(&mut b, &cfg, rng);
                b.extend_from_slice(&mp_nlri(f, false, &mut pg, rng));
            }
            attrs.push(TAttr { code: MP_UNREACH, flags: F_OPT, val: b });
        }
    }
    match rng.below(5) {
        0 | 1 => rng.shuffle(&mut attrs),
        2 => {
            // MP attributes first (what many implementations send)
            attrs.sort_by_key(|a| (!(a.code == MP_REACH || a.code == MP_UNREACH), a.code));
        }
        _ => attrs.sort_by_key(|a| a.code),
    }
    Tmpl { cfg, scenario, withdrawn, nlri, nlri_txt, attrs, mp_fam, n_mp_reach, n_mp_unreach }
}

// ---------------------------------------------------------------- corruption engine

#[derive(Clone, Debug, PartialEq)]
enum FK {
    /// xor of the optional / transitive bits
    Flags(u8),
    Partial,
    LowBits(u8),
    /// extended-length bit set and the length re-encoded in two octets (consistent)
    ExtLen,
    /// extended-length bit flipped without touching the length octets
    ExtLenRaw,
    /// value resized to an invalid size, length field consistent ("len", "len-zero", "len-aswidth")
    Resize(usize, &'static str),
    /// length field changed, value untouched
    LenField(i32),
    /// ORIGIN value out of range
    Value(u8),
    SegType(u8),
    SegOverrun,
    SegUnderrun,
    SegZero(bool),
    /// duplicate inserted `pos` items after the original
    Dup(u32, u64),
    Omit,
    /// unrecognised non-optional attribute: (flags, value length, position seed)
    UnknownWk(u8, u8, u32),
    /// total path attribute length changed by delta (or set absolutely when > 60000)
    AttrLen(i32),
    /// message cut by n octets (header length fixed up)
    MsgTrunc(u32),
    /// legacy NLRI made unparseable
    NlriBad,
    MpNhLen(u8),
    MpShort(usize),
    MpNlriBad,
    MpAfi,
    /// n >= 7 extra labels without bottom-of-stack bit in front of the first NLRI's label (VPN families)
    MpLabels(u8),
    /// the inner per-attribute fault applied to the *later* copy that a `Dup` fault of the same
    /// attribute code inserted (no effect when the list has no such `Dup`)
    OnDup(Box<FK>),
}

#[derive(Clone, Debug, PartialEq)]
struct Fault {
    /// attribute type code (0 for message-level faults)
    code: u8,
    k: FK,
}

impl Fault {
    fn kind(&self) -> &'static str {
        match &self.k {
            FK::Flags(_) => "flags",
            FK::Partial => "partial",
            FK::LowBits(_) => "lowbits",
            FK::ExtLen => "extlen",
            FK::ExtLenRaw => "extlen-raw",
            FK::Resize(_, n) => n,
            FK::LenField(_) => "lenfield",
            FK::Value(_) => "value",
            FK::SegType(_) => "seg-type",
            FK::SegOverrun => "seg-overrun",
            FK::SegUnderrun => "seg-underrun",
            FK::SegZero(_) => "seg-zero",
            FK::Dup(..) => {
                if self.code == MP_REACH || self.code == MP_UNREACH {
                    "dup-mp"
                } else {
                    "dup"
                }
            }
            FK::Omit => "omit",
            FK::UnknownWk(..) => "unknown-wk",
            FK::AttrLen(_) => "attrlen",
            FK::MsgTrunc(_) => "msgtrunc",
            FK::NlriBad => "nlri",
            FK::MpNhLen(_) => "mp-nhlen",
            FK::MpShort(_) => "mp-short",
            FK::MpNlriBad => "mp-nlri",
            FK::MpAfi => "mp-afi",
            FK::MpLabels(_) => "mp-labels",
            FK::OnDup(sub) => match **sub {
                FK::Flags(_) => "dup2-flags",
                FK::Resize(_, "len-zero") => "dup2-len-zero",
                FK::Resize(_, "len-aswidth") => "dup2-len-aswidth",
                FK::Resize(..) => "dup2-len",
                FK::Value(_) => "dup2-value",
                FK::SegType(_) | FK::SegOverrun | FK::SegUnderrun | FK::SegZero(_) => "dup2-seg",
                FK::LenField(_) => "dup2-lenfield",
                FK::ExtLenRaw => "dup2-extlen-raw",
                _ => "dup2-benign",
            },
        }
    }
    fn on_first_copy(&self) -> bool {
        !matches!(self.k, FK::OnDup(_) | FK::Dup(..))
    }
}

#[derive(Clone, Debug)]
struct Item {
    code: u8,
    flags: u8,
    val: Vec<u8>,
    ext: bool,
    len_override: Option<u32>,
    raw_ext_flip: bool,
    is_dup: bool,
}

fn filler(n: usize, seed: u8) -> Vec<u8> {
    (0..n).map(|i| (i as u8).wrapping_mul(7).wrapping_add(seed) | 1).collect()
}

/// a different but valid value of the same attribute (for duplicates)
fn alt_value(code: u8, val: &[u8], seed: u32) -> Vec<u8> {
    match code {
        ORIGIN => vec![(val.first().copied().unwrap_or(0) + 1) % 3],
        MED | LOCAL_PREF | ORIGINATOR_ID => (u32::from_be_bytes([val[0], val[1], val[2], val[3]]) ^ (seed | 1)).to_be_bytes().to_vec(),
        COMMUNITY | CLUSTER_LIST | EXT_COMMUNITY | LARGE_COMMUNITY => val.iter().map(|b| b ^ (seed as u8 | 1)).collect(),
        _ => val.to_vec(),
    }
}

fn seg_width(code: u8, cfg: &Cfg) -> usize {
    if code == AS_PATH && cfg.two_byte { 2 } else { 4 }
}

/// offsets of the segment headers of an AS_PATH-like value
fn seg_offsets(val: &[u8], w: usize) -> Vec<usize> {
    let mut o = Vec::new();
    let mut p = 0;
    while p + 2 <= val.len() {
        o.push(p);
        p += 2 + val[p + 1] as usize * w;
    }
    o
}

/// apply one per-attribute fault to one copy of the attribute
fn mutate(it: &mut Item, code: u8, k: &FK, t: &Tmpl) {
    match k {
        FK::Flags(x) => it.flags ^= x & (F_OPT | F_TRANS),
        FK::Partial => it.flags |= F_PARTIAL,
        FK::LowBits(b) => it.flags |= b & 0x0f,
        FK::ExtLen => it.ext = true,
        FK::ExtLenRaw => it.raw_ext_flip = true,
        FK::Resize(n, _) => {
            if *n <= it.val.len() {
                it.val.truncate(*n);
            } else {
                let extra = filler(*n - it.val.len(), code);
                it.val.extend_from_slice(&extra);
            }
        }
        FK::LenField(d) => {
            let max = if it.ext { 65535 } else { 255 };
            let nl = (it.val.len() as i64 + *d as i64).clamp(0, max) as u32;
            it.len_override = Some(nl);
        }
        FK::Value(v) => {
            if !it.val.is_empty() {
                it.val[0] = *v;
            }
        }
        FK::SegType(ty) => {
            let w = seg_width(code, &t.cfg);
            let offs = seg_offsets(&it.val, w);
            if let Some(o) = offs.last() {
                it.val[*o] = *ty;
            }
        }
        FK::SegOverrun => {
            let w = seg_width(code, &t.cfg);
            let offs = seg_offsets(&it.val, w);
            if let Some(o) = offs.last() {
                it.val[*o + 1] = it.val[*o + 1].saturating_add(1);
            }
        }
        FK::SegUnderrun => it.val.push(2),
        FK::SegZero(front) => {
            if *front {
                it.val.splice(0..0, [2u8, 0u8]);
            } else {
                it.val.extend_from_slice(&[2, 0]);
            }
        }
        FK::MpNhLen(n) => {
            if it.val.len() > 3 {
                it.val[3] = *n;
            }
        }
        FK::MpShort(n) => it.val.truncate(*n),
        FK::MpNlriBad => {
            let start = if code == MP_REACH { 4 + it.val.get(3).copied().unwrap_or(0) as usize + 1 } else { 3 };
            let start = start + if t.cfg.addpath { 4 } else { 0 };
            if start < it.val.len() {
                it.val[start] = 0xff;
            }
        }
        FK::MpAfi => {
            if it.val.len() > 1 {
                it.val[0] = 0;
                it.val[1] = 0xff;
            }
        }
        FK::MpLabels(n) => {
            let start = if code == MP_REACH { 4 + it.val.get(3).copied().unwrap_or(0) as usize + 1 } else { 3 };
            let start = start + if t.cfg.addpath { 4 } else { 0 };
            if start < it.val.len() {
                it.val[start] = 0xff;
                let extra: Vec<u8> = (0..*n).flat_map(|i| [0u8, i, 0x10]).collect();
                it.val.splice(start + 1..start + 1, extra);
            }
        }
        _ => {}
    }
}

struct Built {
    bytes: Vec<u8>,
}

fn build(t: &Tmpl, faults: &[Fault]) -> Built {
    let mut items: Vec<Item> = t
        .attrs
        .iter()
        .map(|a| Item { code: a.code, flags: a.flags, val: a.val.clone(), ext: a.val.len() > 255, len_override: None, raw_ext_flip: false, is_dup: false })
        .collect();
    // per-attribute mutations of the first copy, then structural ones, then the later copies
    for f in faults {
        if matches!(f.k, FK::OnDup(_)) {
            continue;
        }
        let Some(ix) = items.iter().position(|i| i.code == f.code) else { continue };
        mutate(&mut items[ix], f.code, &f.k, t);
    }
    for f in faults {
        match &f.k {
            FK::Omit => {
                if let Some(ix) = items.iter().position(|i| i.code == f.code) {
                    items.remove(ix);
                }
            }
            FK::Dup(seed, pos) => {
                if let Some(ix) = items.iter().position(|i| i.code == f.code) {
                    // the copy is the *valid* template value (possibly with other content)
                    let orig = t.attrs.iter().find(|a| a.code == f.code).unwrap();
                    let copy = Item {
                        code: orig.code,
                        flags: orig.flags,
                        val: alt_value(orig.code, &orig.val, *seed),
                        ext: orig.val.len() > 255,
                        len_override: None,
                        raw_ext_flip: false,
                        is_dup: true,
                    };
                    let at = ix + 1 + (*pos as usize % (items.len() - ix));
                    items.insert(at, copy);
                }
            }
            FK::UnknownWk(flags, len, pos) => {
                let at = *pos as usize % (items.len() + 1);
                items.insert(at, Item { code: f.code, flags: *flags, val: filler(*len as usize, 3), ext: false, len_override: None, raw_ext_flip: false, is_dup: false });
            }
            _ => {}
        }
    }
    for f in faults {
        if let FK::OnDup(sub) = &f.k
            && let Some(ix) = items.iter().position(|i| i.code == f.code && i.is_dup)
        {
            mutate(&mut items[ix], f.code, sub, t);
        }
    }
    let mut block = Vec::new();
    for it in &items {
        let ext = it.ext || it.val.len() > 255;
        let mut fl = (it.flags & !F_EXT) | if ext { F_EXT } else { 0 };
        if it.raw_ext_flip {
            fl ^= F_EXT;
        }
        block.push(fl);
        block.push(it.code);
        let l = it.len_override.unwrap_or(it.val.len() as u32);
        if ext {
            block.extend_from_slice(&(l as u16).to_be_bytes());
        } else {
            block.push(l as u8);
        }
        block.extend_from_slice(&it.val);
    }
    let mut nlri: Vec<u8> = t.nlri.concat();
    let mut attr_len = block.len() as i64;
    let mut trunc = 0usize;
    for f in faults {
        match &f.k {
            FK::NlriBad => {
                let off = if t.cfg.addpath { 4 } else { 0 };
                if off < nlri.len() {
                    nlri[off] = 33 + (nlri[off] % 200);
                }
            }
            FK::AttrLen(d) => {
                attr_len = if *d > 60000 { *d as i64 } else { (attr_len + *d as i64).clamp(0, 65535) };
            }
            FK::MsgTrunc(n) => trunc = *n as usize,
            _ => {}
        }
    }
    let wd: Vec<u8> = t.withdrawn.concat();
    let mut m = vec![0xffu8; 16];
    m.extend_from_slice(&[0, 0, 2]);
    m.extend_from_slice(&(wd.len() as u16).to_be_bytes());
    m.extend_from_slice(&wd);
    m.extend_from_slice(&(attr_len as u16).to_be_bytes());
    m.extend_from_slice(&block);
    m.extend_from_slice(&nlri);
    if trunc > 0 {
        let keep = m.len().saturating_sub(trunc).max(19);
        m.truncate(keep);
    }
    let l = m.len() as u16;
    m[16..18].copy_from_slice(&l.to_be_bytes());
    Built { bytes: m }
}

/// Independent look at the final bytes: are the two length fields inside the
/// message and does a plain TLV walk of the attribute block end exactly at its end?
#[derive(Clone, Copy, PartialEq, Eq, Debug)]
enum Walk {
    Ok,
    FramingBad,
    ChainBad,
}

fn walk(m: &[u8]) -> Walk {
    if m.len() < 23 {
        return Walk::FramingBad;
    }
    let wl = u16::from_be_bytes([m[19], m[20]]) as usize;
    if 23 + wl > m.len() {
        return Walk::FramingBad;
    }
    let al = u16::from_be_bytes([m[21 + wl], m[22 + wl]]) as usize;
    let start = 23 + wl;
    if start + al > m.len() {
        return Walk::FramingBad;
    }
    let end = start + al;
    let mut p = start;
    while p < end {
        if p + 3 > end {
            return Walk::ChainBad;
        }
        let fl = m[p];
        let (l, h) = if fl & F_EXT != 0 {
            if p + 4 > end {
                return Walk::ChainBad;
            }
            (u16::from_be_bytes([m[p + 2], m[p + 3]]) as usize, 4)
        } else {
            (m[p + 2] as usize, 3)
        };
        if p + h + l > end {
            return Walk::ChainBad;
        }
        p += h + l;
    }
    Walk::Ok
}

// ---------------------------------------------------------------- fault choice

fn present(t: &Tmpl, code: u8) -> bool {
    t.attrs.iter().any(|a| a.code == code)
}

fn val_of(t: &Tmpl, code: u8) -> &[u8] {
    &t.attrs.iter().find(|a| a.code == code).unwrap().val
}

fn announces(t: &Tmpl) -> bool {
    !t.nlri.is_empty() || t.n_mp_reach > 0
}

/// invalid sizes for a resize fault of attribute `code` (value length, kind)
fn bad_sizes(t: &Tmpl, code: u8) -> Vec<(usize, &'static str)> {
    let cur = val_of(t, code).len();
    let mut v: Vec<(usize, &'static str)> = match code {
        ORIGIN => vec![(0, "len"), (2, "len"), (4, "len")],
        NEXT_HOP => vec![(0, "len"), (3, "len"), (5, "len"), (8, "len"), (12, "len"), (16, "len"), (32, "len")],
        MED | LOCAL_PREF | ORIGINATOR_ID => vec![(0, "len"), (3, "len"), (5, "len"), (8, "len")],
        ATOMIC_AGGREGATE => vec![(1, "len"), (4, "len")],
        AGGREGATOR => {
            let other = if t.cfg.two_byte { 8 } else { 6 };
            vec![(0, "len"), (5, "len"), (7, "len"), (9, "len"), (other, "len-aswidth"), (other, "len-aswidth")]
        }
        COMMUNITY | CLUSTER_LIST => vec![(0, "len-zero"), (cur + 1, "len"), (cur + 2, "len"), (cur - 1, "len")],
        EXT_COMMUNITY => vec![(0, "len-zero"), (cur + 4, "len"), (cur - 1, "len"), (cur + 1, "len")],
        LARGE_COMMUNITY => vec![(0, "len-zero"), (cur + 4, "len"), (cur + 8, "len"), (cur - 1, "len")],
        AS4_PATH => vec![(0, "len"), (2, "len"), (4, "len"), (cur + 1, "len")],
        AS4_AGGREGATOR => vec![(0, "len"), (6, "len"), (7, "len"), (9, "len")],
        _ => vec![],
    };
    v.retain(|(n, _)| *n != cur);
    v
}

fn choose_faults(t: &Tmpl, rng: &mut Rng, only: Option<&str>) -> Vec<Fault> {
    let nf = match rng.below(100) {
        0..=2 => 0,
        3..=57 => 1,
        58..=84 => 2,
        85..=94 => 3,
        _ => 4,
    };
    let mut out: Vec<Fault> = Vec::new();
    let mut used: BTreeSet<u8> = BTreeSet::new();
    let mut msg_level: BTreeSet<&'static str> = BTreeSet::new();
    let known: Vec<u8> = t.attrs.iter().map(|a| a.code).filter(|c| spec_flags(*c).is_some()).collect();
    let all: Vec<u8> = t.attrs.iter().map(|a| a.code).collect();
    let kinds: [(&str, u32); 25] = [
        ("dup+first", 7),
        ("dup+later", 4),
        ("dup+both", 3),
        ("flags", 16),
        ("partial", 2),
        ("lowbits", 2),
        ("extlen", 3),
        ("extlen-raw", 2),
        ("len", 16),
        ("lenfield", 6),
        ("value", 4),
        ("seg", 8),
        ("dup", 7),
        ("omit", 8),
        ("unknown-wk", 6),
        ("attrlen", 4),
        ("msgtrunc", 2),
        ("nlri", 2),
        ("mp", 5),
        ("flags-mand", 3),
        ("len-mand", 3),
        ("len-zero", 3),
        ("len-aswidth", 2),
        ("seg-zero", 2),
        ("nh-as-v6", 2),
    ];
    let total: u32 = kinds.iter().map(|k| k.1).sum();
    let mut tries = 0;
    while out.len() < nf && tries < 40 {
        tries += 1;
        let mut r = rng.below(total as u64) as u32;
        let mut kind = kinds[0].0;
        for (k, w) in kinds.iter() {
            if r < *w {
                kind = k;
                break;
            }
            r -= w;
        }
        if let Some(o) = only
            && !kind.starts_with(o)
        {
            continue;
        }
        let mut extra: Vec<Fault> = Vec::new();
        let free = |cands: &[u8], used: &BTreeSet<u8>| -> Vec<u8> { cands.iter().copied().filter(|c| !used.contains(c)).collect() };
        let f: Option<Fault> = match kind {
            "flags" => {
                let c = free(&known, &used);
                (!c.is_empty()).then(|| Fault { code: *rng.pick(&c), k: FK::Flags(*rng.pick(&[F_OPT, F_TRANS, F_OPT | F_TRANS])) })
            }
            "flags-mand" => {
                let c = free(&[ORIGIN, AS_PATH, NEXT_HOP].into_iter().filter(|c| present(t, *c)).collect::<Vec<_>>(), &used);
                (!c.is_empty()).then(|| Fault { code: *rng.pick(&c), k: FK::Flags(*rng.pick(&[F_OPT, F_TRANS, F_OPT | F_TRANS])) })
            }
            "partial" => {
                let c: Vec<u8> = free(&all, &used)
                    .into_iter()
                    .filter(|c| {
                        let fl = t.attrs.iter().find(|a| a.code == *c).unwrap().flags;
                        fl & (F_OPT | F_TRANS) != (F_OPT | F_TRANS)
                    })
                    .collect();
                (!c.is_empty()).then(|| Fault { code: *rng.pick(&c), k: FK::Partial })
            }
            "lowbits" => {
                let c = free(&all, &used);
                (!c.is_empty()).then(|| Fault { code: *rng.pick(&c), k: FK::LowBits(rng.range(1, 15) as u8) })
            }
            "extlen" => {
                let c = free(&all, &used);
                (!c.is_empty()).then(|| Fault { code: *rng.pick(&c), k: FK::ExtLen })
            }
            "extlen-raw" => {
                let c = free(&all, &used);
                (!c.is_empty()).then(|| Fault { code: *rng.pick(&c), k: FK::ExtLenRaw })
            }
            "len" | "len-mand" | "len-zero" | "len-aswidth" | "nh-as-v6" => {
                let mut c: Vec<u8> = free(&known, &used).into_iter().filter(|c| !bad_sizes(t, *c).is_empty()).collect();
                if kind == "len-mand" {
                    c.retain(|c| matches!(*c, ORIGIN | NEXT_HOP));
                }
                if kind == "nh-as-v6" {
                    c.retain(|c| *c == NEXT_HOP);
                }
                if kind == "len-aswidth" {
                    c.retain(|c| *c == AGGREGATOR);
                }
                if kind == "len-zero" {
                    c.retain(|c| matches!(*c, COMMUNITY | CLUSTER_LIST | EXT_COMMUNITY | LARGE_COMMUNITY));
                }
                if c.is_empty() {
                    None
                } else {
                    let code = *rng.pick(&c);
                    let mut sizes = bad_sizes(t, code);
                    if kind == "len-zero" {
                        sizes.retain(|s| s.1 == "len-zero");
                    }
                    if kind == "len-aswidth" {
                        sizes.retain(|s| s.1 == "len-aswidth");
                    }
                    if kind == "nh-as-v6" {
                        sizes.retain(|s| s.0 == 16 || s.0 == 32);
                    }
                    if sizes.is_empty() {
                        None
                    } else {
                        let (n, name) = *rng.pick(&sizes);
                        Some(Fault { code, k: FK::Resize(n, name) })
                    }
                }
            }
            "lenfield" => {
                let c = free(&all, &used);
                (!c.is_empty()).then(|| {
                    let d = *rng.pick(&[-3, -2, -1, 1, 2, 3, 7, 40, 200]);
                    Fault { code: *rng.pick(&c), k: FK::LenField(d) }
                })
            }
            "value" => (present(t, ORIGIN) && !used.contains(&ORIGIN)).then(|| Fault { code: ORIGIN, k: FK::Value(rng.range(3, 255) as u8) }),
            "seg" | "seg-zero" => {
                let c = free(&[AS_PATH, AS4_PATH].into_iter().filter(|c| present(t, *c)).collect::<Vec<_>>(), &used);
                if c.is_empty() {
                    None
                } else {
                    let code = *rng.pick(&c);
                    let empty = val_of(t, code).is_empty();
                    let k = if kind == "seg-zero" {
                        FK::SegZero(rng.bool())
                    } else {
                        match rng.below(4) {
                            0 if !empty => FK::SegType(*rng.pick(&[0u8, 5, 6, 0x42, 0xff])),
                            1 if !empty => FK::SegOverrun,
                            2 => FK::SegZero(rng.bool()),
                            _ => FK::SegUnderrun,
                        }
                    };
                    Some(Fault { code, k })
                }
            }
            "dup" => {
                let c = free(&all, &used);
                (!c.is_empty()).then(|| Fault { code: *rng.pick(&c), k: FK::Dup(rng.next_u32(), rng.below(16)) })
            }
            "dup+first" | "dup+later" | "dup+both" => {
                // a duplicate together with a fault on the first copy, on the later copy, or on both
                let c: Vec<u8> = free(&all, &used).into_iter().filter(|c| *c != MP_REACH && *c != MP_UNREACH).collect();
                if c.is_empty() {
                    None
                } else {
                    let code = *rng.pick(&c);
                    if kind != "dup+later"
                        && let Some(k) = attr_fault(t, code, rng)
                    {
                        extra.push(Fault { code, k });
                    }
                    if kind != "dup+first"
                        && let Some(k) = attr_fault(t, code, rng)
                    {
                        extra.push(Fault { code, k: FK::OnDup(Box::new(k)) });
                    }
                    Some(Fault { code, k: FK::Dup(rng.next_u32(), rng.below(16)) })
                }
            }
            "omit" => {
                let c = free(&[ORIGIN, AS_PATH, NEXT_HOP].into_iter().filter(|c| present(t, *c)).collect::<Vec<_>>(), &used);
                (announces(t) && !c.is_empty()).then(|| Fault { code: *rng.pick(&c), k: FK::Omit })
            }
            "unknown-wk" => {
                // a type code that is neither assigned in the template nor known
                let code = 100 + rng.below(60) as u8;
                (!used.contains(&code)).then(|| Fault { code, k: FK::UnknownWk(*rng.pick(&[F_TRANS, 0u8, F_TRANS | F_PARTIAL]), rng.below(6) as u8, rng.next_u32()) })
            }
            "attrlen" => (!msg_level.contains("attrlen")).then(|| {
                let d = *rng.pick(&[-9, -4, -3, -2, -1, 1, 2, 3, 5, 17, 300, 65000, 65535]);
                Fault { code: 0, k: FK::AttrLen(d) }
            }),
            "msgtrunc" => (!msg_level.contains("msgtrunc")).then(|| Fault { code: 0, k: FK::MsgTrunc(rng.range(1, 12) as u32) }),
            "nlri" => (!t.nlri.is_empty() && !msg_level.contains("nlri")).then(|| Fault { code: 0, k: FK::NlriBad }),
            "mp" => {
                let c = free(&[MP_REACH, MP_UNREACH].into_iter().filter(|c| present(t, *c)).collect::<Vec<_>>(), &used);
                if c.is_empty() {
                    None
                } else {
                    let code = *rng.pick(&c);
                    // VPN NLRI: 8 or more labels plus the RD cannot fit the one-octet bit length -> malformed.
                    // (Labeled-unicast NLRI with several labels can be well-formed, so they are left alone.)
                    let vpn = matches!(t.mp_fam, Some(Fam::Vpn4 | Fam::Vpn6));
                    let k = match rng.below(5) {
                        4 if vpn => FK::MpLabels(rng.range(7, 12) as u8),
                        0 if code == MP_REACH => FK::MpNhLen(*rng.pick(&[0u8, 3, 5, 17, 255])),
                        1 => FK::MpShort(rng.below(if code == MP_REACH { 5 } else { 3 }) as usize),
                        2 => FK::MpAfi,
                        _ => FK::MpNlriBad,
                    };
                    Some(Fault { code, k })
                }
            }
            _ => None,
        };
        if let Some(f) = f {
            if f.code != 0 {
                used.insert(f.code);
            } else {
                msg_level.insert(f.kind());
            }
            out.push(f);
            out.append(&mut extra);
        }
    }
    out
}

/// one per-attribute fault applicable to attribute `code` of the template (used for the
/// duplicate combinations, where first and later copy are faulted independently)
fn attr_fault(t: &Tmpl, code: u8, rng: &mut Rng) -> Option<FK> {
    let known = spec_flags(code).is_some();
    let mut cands: Vec<(u32, u8)> = vec![(1, 4), (1, 5), (1, 6)];
    if known {
        cands.push((6, 0));
    }
    if known && !bad_sizes(t, code).is_empty() {
        cands.push((6, 1));
    }
    if code == ORIGIN {
        cands.push((3, 2));
    }
    if code == AS_PATH || code == AS4_PATH {
        cands.push((4, 3));
    }
    let total: u32 = cands.iter().map(|c| c.0).sum();
    let mut r = rng.below(total as u64) as u32;
    let mut pick = cands[0].1;
    for (w, k) in &cands {
        if r < *w {
            pick = *k;
            break;
        }
        r -= w;
    }
    Some(match pick {
        0 => FK::Flags(*rng.pick(&[F_OPT, F_TRANS, F_OPT | F_TRANS])),
        1 => {
            let sizes = bad_sizes(t, code);
            let (n, name) = *rng.pick(&sizes);
            FK::Resize(n, name)
        }
        2 => FK::Value(rng.range(3, 255) as u8),
        3 => {
            let empty = val_of(t, code).is_empty();
            match rng.below(4) {
                0 if !empty => FK::SegType(*rng.pick(&[0u8, 5, 0x42, 0xff])),
                1 if !empty => FK::SegOverrun,
                2 => FK::SegZero(rng.bool()),
                _ => FK::SegUnderrun,
            }
        }
        4 => FK::LowBits(rng.range(1, 15) as u8),
        5 => FK::ExtLen,
        _ => FK::LenField(*rng.pick(&[-2, -1, 1, 2, 5])),
    })
}

// ---------------------------------------------------------------- classification (the reference RFC 7606 classes)

#[derive(Clone, Copy, PartialEq, Eq, Debug)]
enum Class {
    /// not a fault the statement speaks about (reserved flag bits, consistent extended length): any non-reset outcome
    Benign,
    /// route may be kept, but then without this attribute — or withdrawn
    Discardable,
    /// announced prefixes must be treated as withdrawn
    MustWithdraw,
    /// duplicate of a non-MP attribute: kept with the first occurrence, or withdrawn
    Dup,
    /// fault on a later copy of a duplicated attribute: RFC 7606 §3.g discards every occurrence but
    /// the first, so the fault is void -- the first copy alone decides (kept with the first, or withdrawn)
    LaterCopy,
}

struct Record {
    classes: Vec<Class>,
    /// the engine touched length fields / the total attribute length / cut the message
    framing_touched: bool,
    mp_reach_touched: bool,
    mp_unreach_touched: bool,
    nlri_touched: bool,
    unjudged: Vec<&'static str>,
}

fn type_discardable(code: u8, cfg: &Cfg) -> bool {
    // "an optional non-transitive attribute, AS4_PATH or AS4_AGGREGATOR" (by attribute type);
    // LOCAL_PREF from an external peer is discarded per RFC 7606 §7.5
    matches!(code, MED | ORIGINATOR_ID | CLUSTER_LIST | AIGP | MP_REACH | MP_UNREACH | AS4_PATH | AS4_AGGREGATOR) || (code == LOCAL_PREF && cfg.is_ebgp())
}

fn classify(t: &Tmpl, faults: &[Fault]) -> Record {
    let mut r = Record { classes: Vec::new(), framing_touched: false, mp_reach_touched: false, mp_unreach_touched: false, nlri_touched: false, unjudged: Vec::new() };
    for f in faults {
        let mandatory = matches!(f.code, ORIGIN | AS_PATH) || (f.code == NEXT_HOP && !t.nlri.is_empty());
        let touch_mp = |r: &mut Record| {
            if f.code == MP_REACH {
                r.mp_reach_touched = true;
            }
            if f.code == MP_UNREACH {
                r.mp_unreach_touched = true;
            }
        };
        let c = match &f.k {
            FK::LowBits(_) | FK::ExtLen => Class::Benign,
            FK::Partial => {
                // RFC 4271 says the bit MUST be 0 here, RFC 7606 §3.c only names the
                // Optional and Transitive bits: not judged
                r.unjudged.push("partial-bit");
                Class::Benign
            }
            FK::Flags(x) => {
                touch_mp(&mut r);
                let wire = spec_flags(f.code).unwrap_or(0) ^ x;
                if mandatory {
                    Class::MustWithdraw
                } else if type_discardable(f.code, &t.cfg) {
                    Class::Discardable
                } else if wire & (F_OPT | F_TRANS) == F_OPT {
                    // known optional-transitive / well-known discretionary attribute whose wire
                    // flags now say "optional non-transitive": whether the statement's discard
                    // option applies is a matter of reading; both outcomes accepted
                    r.unjudged.push("flags-wire-says-opt-nontrans");
                    Class::Discardable
                } else {
                    Class::MustWithdraw
                }
            }
            FK::Resize(_, _) => {
                if mandatory {
                    Class::MustWithdraw
                } else if type_discardable(f.code, &t.cfg) || matches!(f.code, ATOMIC_AGGREGATE | AGGREGATOR) {
                    // RFC 7606 §7.6/§7.7: attribute discard for ATOMIC_AGGREGATE / AGGREGATOR length errors
                    Class::Discardable
                } else {
                    Class::MustWithdraw
                }
            }
            FK::Value(_) => Class::MustWithdraw,
            FK::SegType(_) | FK::SegOverrun | FK::SegUnderrun | FK::SegZero(_) => {
                if f.code == AS4_PATH {
                    Class::Discardable
                } else {
                    Class::MustWithdraw
                }
            }
            FK::Dup(..) => {
                if f.code == MP_REACH || f.code == MP_UNREACH {
                    // RFC 7606 §3.g: session reset
                    r.mp_reach_touched = true;
                    r.mp_unreach_touched = true;
                    Class::Discardable
                } else {
                    Class::Dup
                }
            }
            FK::OnDup(sub) => {
                let has_dup = faults.iter().any(|g| g.code == f.code && matches!(g.k, FK::Dup(..)));
                if !has_dup {
                    Class::Benign // no later copy in this list: the fault has no effect
                } else {
                    if matches!(**sub, FK::LenField(_) | FK::ExtLenRaw) {
                        r.framing_touched = true;
                    }
                    Class::LaterCopy
                }
            }
            FK::Omit => Class::MustWithdraw,
            FK::UnknownWk(..) => Class::MustWithdraw,
            FK::LenField(_) | FK::ExtLenRaw => {
                r.framing_touched = true;
                touch_mp(&mut r);
                Class::Benign // judged through the independent TLV walk
            }
            FK::AttrLen(_) | FK::MsgTrunc(_) => {
                r.framing_touched = true;
                Class::Benign
            }
            FK::NlriBad => {
                r.nlri_touched = true;
                Class::Benign
            }
            FK::MpNhLen(_) | FK::MpShort(_) | FK::MpNlriBad | FK::MpAfi | FK::MpLabels(_) => {
                touch_mp(&mut r);
                Class::Discardable
            }
        };
        r.classes.push(c);
    }
    r
}

// ---------------------------------------------------------------- observation

enum Outcome {
    Panic(PanicInfo),
    Reset(String),
    Incomplete,
    Msgs(Vec<Message>),
}

fn run_code(cfg: &Cfg, bytes: &[u8]) -> Outcome {
    let r = guard(|| {
        let mut codec = mk_codec(cfg);
        let mut b = BytesMut::from(bytes);
        match codec.try_parse(&mut b) {
            Err(n) => Outcome::Reset(format!("{:?}", n)),
            Ok(None) => Outcome::Incomplete,
            Ok(Some(p)) => match validate_message(p, cfg.is_ebgp()) {
                Err(n) => Outcome::Reset(format!("{:?}", n)),
                Ok(it) => Outcome::Msgs(it.collect()),
            },
        }
    });
    match r {
        Ok(o) => o,
        Err(p) => Outcome::Panic(p),
    }
}

/// identity of a route for set comparisons: family, path id, and the NLRI with
/// labels left out (a withdrawal may legitimately carry another label)
fn key(f: Family, p: &PathNlri) -> String {
    let n = match &p.nlri {
        Nlri::LabeledV4(n) => format!("L4 {}", n.prefix),
        Nlri::LabeledV6(n) => format!("L6 {}", n.prefix),
        Nlri::VpnV4(n) => format!("VPN4 {:?} {}", n.rd, n.prefix),
        Nlri::VpnV6(n) => format!("VPN6 {:?} {}", n.rd, n.prefix),
        other => format!("{:?}", other),
    };
    format!("{}/{}#{} {}", f.afi(), f.safi(), p.path_id, n)
}

#[derive(Default)]
struct Obs {
    reach: BTreeMap<String, Arc<Vec<Attribute>>>,
    unreach: BTreeSet<String>,
    other: usize,
}

fn observe(msgs: &[Message]) -> Obs {
    let mut o = Obs::default();
    for m in msgs {
        match m {
            Message::Update(Update::Reach { family, entries, attr, .. }) => {
                for e in entries {
                    o.reach.insert(key(*family, e), attr.clone());
                }
            }
            Message::Update(Update::Unreach { family, entries }) => {
                for e in entries {
                    o.unreach.insert(key(*family, e));
                }
            }
            _ => o.other += 1,
        }
    }
    o
}

fn describe(o: &Outcome) -> String {
    match o {
        Outcome::Panic(p) => format!("panic at {}: {}", p.location, p.message),
        Outcome::Reset(n) => format!("Err({})", n),
        Outcome::Incomplete => "Ok(None)".into(),
        Outcome::Msgs(ms) => {
            let mut s = Vec::new();
            for m in ms {
                match m {
                    Message::Update(Update::Reach { family, entries, attr, nexthop }) => s.push(format!(
                        "Reach {}/{} [{}] nexthop={:?} attrs={:?}",
                        family.afi(),
                        family.safi(),
                        entries.iter().map(|e| format!("{}", e.nlri)).collect::<Vec<_>>().join(" "),
                        nexthop,
                        attr.iter().map(|a| a.code()).collect::<Vec<_>>()
                    )),
                    Message::Update(Update::Unreach { family, entries }) => s.push(format!(
                        "Unreach {}/{} [{}]",
                        family.afi(),
                        family.safi(),
                        entries.iter().map(|e| format!("{}", e.nlri)).collect::<Vec<_>>().join(" ")
                    )),
                    Message::Update(Update::EndOfRib(f)) => s.push(format!("EndOfRib {}/{}", f.afi(), f.safi())),
                    _ => s.push("other".into()),
                }
            }
            format!("Ok[{}]", s.join("; "))
        }
    }
}

/// what the valid template announces / withdraws, in the code's own NLRI identity
struct Baseline {
    legacy_a: Vec<String>,
    mp_a: Vec<String>,
    legacy_w: Vec<String>,
    mp_w: Vec<String>,
}

fn baseline(t: &Tmpl) -> Result<Baseline, String> {
    let b = build(t, &[]);
    if walk(&b.bytes) != Walk::Ok {
        return Err("template does not walk".into());
    }
    let msgs = match run_code(&t.cfg, &b.bytes) {
        Outcome::Msgs(m) => m,
        o => return Err(format!("valid template not accepted: {}", describe(&o))),
    };
    let mut bl = Baseline { legacy_a: vec![], mp_a: vec![], legacy_w: vec![], mp_w: vec![] };
    let legacy_is_v4 = !t.nlri.is_empty();
    let legacy_w_is_v4 = !t.withdrawn.is_empty();
    for m in &msgs {
        match m {
            Message::Update(Update::Reach { family, entries, .. }) => {
                for e in entries {
                    if *family == Family::IPV4 && legacy_is_v4 {
                        // independent identity check for the legacy prefixes
                        let txt = format!("{}", e.nlri);
                        if !t.nlri_txt.contains(&txt) {
                            return Err(format!("legacy prefix {} not one of {:?}", txt, t.nlri_txt));
                        }
                        bl.legacy_a.push(key(*family, e));
                    } else {
                        bl.mp_a.push(key(*family, e));
                    }
                }
            }
            Message::Update(Update::Unreach { family, entries }) => {
                for e in entries {
                    if *family == Family::IPV4 && legacy_w_is_v4 && t.mp_fam != Some(Fam::V4Mp) {
                        bl.legacy_w.push(key(*family, e));
                    } else {
                        bl.mp_w.push(key(*family, e));
                    }
                }
            }
            _ => {}
        }
    }
    if bl.legacy_a.len() != t.nlri.len() || bl.mp_a.len() != t.n_mp_reach || bl.legacy_w.len() != t.withdrawn.len() || bl.mp_w.len() != t.n_mp_unreach {
        return Err(format!(
            "valid template parsed to {}+{} announced / {}+{} withdrawn, built {}+{} / {}+{}: {}",
            bl.legacy_a.len(),
            bl.mp_a.len(),
            bl.legacy_w.len(),
            bl.mp_w.len(),
            t.nlri.len(),
            t.n_mp_reach,
            t.withdrawn.len(),
            t.n_mp_unreach,
            describe(&Outcome::Msgs(msgs))
        ));
    }
    Ok(bl)
}

// ---------------------------------------------------------------- oracle

#[derive(Clone, Debug)]
struct Finding {
    clause: String,
    /// attribute code the finding is about when it is not a fault (ebgp-filter)
    code: Option<u8>,
    text: String,
}

#[derive(Default)]
struct Eval {
    findings: Vec<Finding>,
    notes: Vec<String>,
    observed: String,
    /// result of the independent TLV walk of the corrupted bytes
    walk_bad: Option<&'static str>,
}

fn upconvert_path(v: &[u8]) -> Vec<u8> {
    let mut out = Vec::new();
    let mut p = 0;
    while p + 2 <= v.len() {
        let n = v[p + 1] as usize;
        out.push(v[p]);
        out.push(v[p + 1]);
        for i in 0..n {
            let s = p + 2 + 2 * i;
            if s + 2 > v.len() {
                return out;
            }
            out.extend_from_slice(&[0, 0, v[s], v[s + 1]]);
        }
        p += 2 + 2 * n;
    }
    out
}

fn evaluate(t: &Tmpl, bl: &Baseline, faults: &[Fault]) -> Eval {
    let mut ev = Eval::default();
    let rec = classify(t, faults);
    let b = build(t, faults);
    let w = walk(&b.bytes);
    let out = run_code(&t.cfg, &b.bytes);
    ev.observed = describe(&out);
    ev.walk_bad = match w {
        Walk::Ok => None,
        Walk::ChainBad => Some("tlv-chain"),
        Walk::FramingBad => Some("framing"),
    };
    for u in &rec.unjudged {
        ev.notes.push(format!("unjudged:{}", u));
    }
    // which duplicate combinations this case carries (evidence counters)
    for (f, _) in faults.iter().zip(rec.classes.iter()).filter(|(_, c)| **c == Class::Dup) {
        let first = faults.iter().zip(rec.classes.iter()).find(|(g, _)| g.code == f.code && g.on_first_copy()).map(|(_, c)| *c);
        let later = faults.iter().zip(rec.classes.iter()).any(|(g, c)| g.code == f.code && *c == Class::LaterCopy);
        ev.notes.push(
            match (first, later) {
                (Some(Class::MustWithdraw), false) => "combo:dup+first-mustwithdraw",
                (Some(Class::Discardable), false) => "combo:dup+first-discardable",
                (Some(Class::MustWithdraw), true) => "combo:dup+both:first-mustwithdraw",
                (Some(Class::Discardable), true) => "combo:dup+both:first-discardable",
                (Some(_), true) => "combo:dup+both:first-benign",
                (Some(_), false) => "combo:dup+first-benign",
                (None, true) => "combo:dup+later",
                (None, false) => "combo:dup-only",
            }
            .into(),
        );
    }
    if !rec.framing_touched && w != Walk::Ok {
        ev.notes.push("harness:walk-disagrees".into());
        return ev;
    }
    let reset_allowed = rec.framing_touched || rec.mp_reach_touched || rec.mp_unreach_touched || rec.nlri_touched;
    let msgs = match out {
        Outcome::Panic(p) => {
            ev.findings.push(Finding {
                clause: format!("panic/{}:{}", p.location, panic_class(&p.message)),
                code: None,
                text: format!("decoder panicked at {}: {}", p.location, p.message),
            });
            return ev;
        }
        Outcome::Incomplete => {
            ev.notes.push("harness:incomplete".into());
            return ev;
        }
        Outcome::Reset(n) => {
            if reset_allowed {
                ev.notes.push("outcome:reset-allowed".into());
            } else {
                ev.findings.push(Finding {
                    clause: "reset".into(),
                    code: None,
                    text: format!("session reset ({}) although the attribute TLV chain, the MP attributes and all NLRI are intact and locatable", n),
                });
            }
            return ev;
        }
        Outcome::Msgs(m) => m,
    };
    if !reset_allowed {
        ev.notes.push("clause:reset:no-reset-needed-and-none".into());
    }
    let obs = observe(&msgs);
    let chain_detectably_bad = w != Walk::Ok;
    let must_withdraw = rec.classes.contains(&Class::MustWithdraw) || chain_detectably_bad;
    let resynced = rec.framing_touched && !chain_detectably_bad;
    if resynced {
        // the engine changed a length but a TLV walk of the result still ends at the
        // block end: what the attributes now "are" is not known to the oracle
        ev.notes.push("unjudged:length-change-resynced".into());
    }
    let legacy_located = !rec.framing_touched && !rec.nlri_touched;
    let mp_located = !rec.framing_touched && !rec.mp_reach_touched;

    // never-installs / treat-as-withdraw
    if must_withdraw && !resynced {
        for (set, located, what) in [(&bl.legacy_a, legacy_located, "legacy"), (&bl.mp_a, mp_located, "MP_REACH")] {
            for p in set.iter() {
                if obs.reach.contains_key(p) {
                    ev.findings.push(Finding { clause: "never-installs".into(), code: None, text: format!("{} prefix {} emitted as Reach although the UPDATE carries a fault that demands treat-as-withdraw", what, p) });
                } else if located && !obs.unreach.contains(p) {
                    ev.findings.push(Finding { clause: "treat-as-withdraw".into(), code: None, text: format!("{} prefix {} is locatable but was not turned into a withdrawal", what, p) });
                }
            }
        }
        if !bl.legacy_a.is_empty() || !bl.mp_a.is_empty() {
            ev.notes.push("clause:never-installs:checked".into());
        }
    } else if !resynced {
        // MP prefixes of a faulty MP_REACH must not be installed either
        if rec.mp_reach_touched {
            for p in bl.mp_a.iter() {
                if obs.reach.contains_key(p) {
                    ev.findings.push(Finding { clause: "never-installs".into(), code: None, text: format!("MP prefix {} emitted as Reach although MP_REACH_NLRI itself is faulty", p) });
                }
            }
            ev.notes.push("clause:never-installs:mp-checked".into());
        }
        // discard / duplicates: judged on the prefixes that were kept
        let mut kept = 0;
        let mut withdrawn = 0;
        let mut neither = 0;
        for (set, located) in [(&bl.legacy_a, legacy_located), (&bl.mp_a, mp_located)] {
            for p in set.iter() {
                let Some(attrs) = obs.reach.get(p) else {
                    if obs.unreach.contains(p) {
                        withdrawn += 1;
                    } else if located {
                        neither += 1;
                    }
                    continue;
                };
                kept += 1;
                for (f, c) in faults.iter().zip(rec.classes.iter()) {
                    match c {
                        Class::Discardable => {
                            if attrs.iter().any(|a| a.code() == f.code) {
                                ev.findings.push(Finding { clause: "discard".into(), code: None, text: format!("prefix {} kept although attribute {} is faulty ({}) and still attached", p, f.code, f.kind()) });
                            }
                            if t.cfg.two_byte && f.code == AS4_PATH && present(t, AS_PATH) && !faults.iter().any(|g| g.code == AS_PATH) {
                                let want = upconvert_path(val_of(t, AS_PATH));
                                if let Some(a) = attrs.iter().find(|a| a.code() == AS_PATH)
                                    && a.binary() != Some(&want)
                                {
                                    ev.findings.push(Finding { clause: "discard".into(), code: None, text: format!("prefix {} kept with an AS_PATH that is not the received one although AS4_PATH is faulty", p) });
                                }
                            }
                            if t.cfg.two_byte && f.code == AS4_AGGREGATOR && present(t, AGGREGATOR) && !faults.iter().any(|g| g.code == AGGREGATOR) {
                                let v = val_of(t, AGGREGATOR);
                                let mut want = vec![0, 0, v[0], v[1]];
                                want.extend_from_slice(&v[2..]);
                                if let Some(a) = attrs.iter().find(|a| a.code() == AGGREGATOR)
                                    && a.binary() != Some(&want)
                                {
                                    ev.findings.push(Finding { clause: "discard".into(), code: None, text: format!("prefix {} kept with an AGGREGATOR that is not the received one although AS4_AGGREGATOR is faulty", p) });
                                }
                            }
                        }
                        Class::Dup => {
                            // first copy itself faulty and discardable: the attribute must be gone
                            // altogether (judged by the Discardable arm), a later copy is never believed
                            let first_discardable = faults.iter().zip(rec.classes.iter()).any(|(g, gc)| g.code == f.code && g.on_first_copy() && *gc == Class::Discardable);
                            if first_discardable {
                                if !attrs.iter().any(|a| a.code() == f.code) {
                                    ev.notes.push("clause:dup-first-discardable:kept-without-attr".into());
                                }
                                continue;
                            }
                            if faults.iter().zip(rec.classes.iter()).any(|(g, gc)| g.code == f.code && *gc == Class::LaterCopy) {
                                ev.notes.push("clause:dup-later-faulty:kept".into());
                            }
                            let n = attrs.iter().filter(|a| a.code() == f.code).count();
                            if n > 1 {
                                ev.findings.push(Finding { clause: "discard".into(), code: None, text: format!("prefix {} kept with {} copies of attribute {}", p, n, f.code) });
                            } else if let Some(a) = attrs.iter().find(|a| a.code() == f.code) {
                                // RFC 7606 §3.g: all but the first occurrence are discarded
                                let first = val_of(t, f.code);
                                let same = match f.code {
                                    ORIGIN => a.value() == Some(first[0] as u32),
                                    MED | LOCAL_PREF | ORIGINATOR_ID => a.value() == Some(u32::from_be_bytes([first[0], first[1], first[2], first[3]])),
                                    COMMUNITY | CLUSTER_LIST | EXT_COMMUNITY | LARGE_COMMUNITY => a.binary().map(|b| b.as_slice()) == Some(first),
                                    _ => true,
                                };
                                // only judged when the first occurrence itself was left valid
                                if !same {
                                    ev.findings.push(Finding { clause: "discard".into(), code: None, text: format!("prefix {} kept with the value of a later duplicate of attribute {}", p, f.code) });
                                }
                            }
                        }
                        _ => {}
                    }
                }
            }
        }
        if rec.classes.iter().any(|c| matches!(c, Class::Discardable | Class::Dup)) {
            if kept > 0 {
                ev.notes.push("clause:discard:kept".into());
            }
            if withdrawn > 0 {
                ev.notes.push("clause:discard:withdrawn".into());
            }
        }
        if neither > 0 {
            ev.notes.push("unjudged:announced-prefix-neither-kept-nor-withdrawn".into());
        }
        if faults.is_empty() && (withdrawn > 0 || neither > 0) {
            ev.notes.push("harness:valid-template-not-kept".into());
        }
    }

    // withdrawals-survive
    if !rec.framing_touched || walk_withdrawn_ok(&b.bytes, t) {
        for p in bl.legacy_w.iter() {
            if !obs.unreach.contains(p) {
                ev.findings.push(Finding { clause: "withdrawals-survive".into(), code: None, text: format!("withdrawn route {} of the same message is missing from the result", p) });
            }
        }
        if !bl.legacy_w.is_empty() {
            ev.notes.push("clause:withdrawals:legacy-checked".into());
        }
    }
    if !rec.framing_touched && !rec.mp_unreach_touched {
        for p in bl.mp_w.iter() {
            if !obs.unreach.contains(p) {
                ev.findings.push(Finding { clause: "withdrawals-survive".into(), code: None, text: format!("MP_UNREACH route {} of the same message is missing from the result", p) });
            }
        }
        if !bl.mp_w.is_empty() {
            ev.notes.push("clause:withdrawals:mp-checked".into());
        }
    }

    // ebgp-filter
    if t.cfg.is_ebgp() {
        let had = [LOCAL_PREF, ORIGINATOR_ID, CLUSTER_LIST].iter().any(|c| present(t, *c));
        for (p, attrs) in obs.reach.iter() {
            for c in [LOCAL_PREF, ORIGINATOR_ID, CLUSTER_LIST] {
                if attrs.iter().any(|a| a.code() == c) {
                    ev.findings.push(Finding { clause: "ebgp-filter".into(), code: Some(c), text: format!("attribute {} survives in the Reach for {} received from an external peer", c, p) });
                }
            }
        }
        if had && !obs.reach.is_empty() {
            ev.notes.push("clause:ebgp-filter:reach-with-ibgp-attrs-in-input".into());
        }
    }
    ev.notes.push(
        if obs.reach.is_empty() && obs.unreach.is_empty() {
            "outcome:nothing"
        } else if obs.reach.is_empty() {
            "outcome:unreach-only"
        } else if must_withdraw {
            "outcome:reach-despite-fault"
        } else {
            "outcome:reach"
        }
        .into(),
    );
    ev
}

/// the withdrawn-routes field is untouched by every fault: it is locatable whenever
/// its length field still fits the (possibly cut) message
fn walk_withdrawn_ok(m: &[u8], t: &Tmpl) -> bool {
    let wl: usize = t.withdrawn.iter().map(|w| w.len()).sum();
    m.len() >= 23 + wl
}

fn signature(clause: &str, code: Option<u8>, faults: &[Fault]) -> String {
    if clause.starts_with("panic/") {
        return format!("C05/{}", clause);
    }
    // unknown-wk: the (random) type code is not a discriminating fact; length-field faults
    // break the TLV chain whatever attribute they sit on
    let mut fs: Vec<(u8, &'static str)> = faults
        .iter()
        .map(|f| {
            let c = match f.k {
                FK::UnknownWk(..) => 255,
                FK::LenField(_) | FK::ExtLenRaw => 0,
                _ if f.code >= 200 => 200,
                _ => f.code,
            };
            (c, f.kind())
        })
        .collect();
    fs.sort();
    fs.dedup();
    let codes = if let Some(c) = code {
        c.to_string()
    } else if fs.is_empty() {
        "0".into()
    } else {
        // a duplicate and the faults on its copies share one attribute code: print it once
        let mut cs: Vec<u8> = Vec::new();
        for f in &fs {
            if !cs.contains(&f.0) {
                cs.push(f.0);
            }
        }
        cs.iter().map(|c| c.to_string()).collect::<Vec<_>>().join("+")
    };
    let kinds = if fs.is_empty() { "none".into() } else { fs.iter().map(|f| f.1).collect::<Vec<_>>().join("+") };
    format!("C05/{}/{}/{}", clause, codes, kinds)
}

/// drop faults while a finding of the same clause remains
fn minimize(t: &Tmpl, bl: &Baseline, faults: &[Fault], clause: &str) -> Vec<Fault> {
    let mut cur = faults.to_vec();
    let mut i = 0;
    while i < cur.len() {
        let mut tr = cur.clone();
        tr.remove(i);
        let ev = evaluate(t, bl, &tr);
        if ev.findings.iter().any(|f| f.clause == clause) {
            cur = tr;
            i = 0;
        } else {
            i += 1;
        }
    }
    cur
}

fn tmpl_json(t: &Tmpl) -> Json {
    Json::obj(vec![
        ("session", Json::s(t.cfg.name())),
        ("is_ebgp", Json::Bool(t.cfg.is_ebgp())),
        ("two_byte_as", Json::Bool(t.cfg.two_byte)),
        ("addpath_rx", Json::Bool(t.cfg.addpath)),
        ("scenario", Json::s(t.scenario)),
        ("mp_family", Json::s(format!("{:?}", t.mp_fam))),
        ("attrs", Json::s(format!("{:?}", t.attrs.iter().map(|a| a.code).collect::<Vec<_>>()))),
    ])
}

fn case_json(t: &Tmpl, faults: &[Fault], observed: &str, expected: &str) -> Json {
    Json::obj(vec![
        ("template", tmpl_json(t)),
        ("valid_update_hex", Json::s(hex(&build(t, &[]).bytes))),
        ("faults", Json::strs(faults.iter().map(|f| format!("attr {} {} {:?}", f.code, f.kind(), f.k)))),
        ("update_hex", Json::s(hex(&build(t, faults).bytes))),
        ("observed", Json::s(observed)),
        ("expected", Json::s(expected)),
    ])
}

fn main() {
    let params = Params::from_args_env();
    let rule = "case = (session kind, valid UPDATE template, recorded fault list) -> corrupted UPDATE through try_parse + validate_message; non-trivial = at least one fault that is not a mere reserved-bit / consistent-extended-length variation and at least one announced prefix; distinct by hash of (session kind, corrupted bytes)";
    let mut rep = Report::new("C05", &params);
    rep.extra("rule", Json::s(rule));

    if let Some(h) = params.get("hex") {
        // replay helper: hex=<update> role=ebgp|ibgp|confed as2=1 addpath=1
        let cfg = Cfg {
            role: match params.get("role") {
                Some("ebgp") => Role::Ebgp,
                Some("confed") => Role::Confed,
                _ => Role::Ibgp,
            },
            two_byte: params.flag("as2"),
            addpath: params.flag("addpath"),
        };
        println!("{} walk={:?} -> {}", cfg.name(), walk(&unhex(h)), describe(&run_code(&cfg, &unhex(h))));
        return;
    }

    let mut rng = Rng::new(params.seed ^ 0xC05);
    let n = params.n(60_000, 160_000);
    let only = params.get("only").map(|s| s.to_string());
    let mut i = 0u64;
    while i < n && rep.in_budget() {
        i += 1;
        let t = gen_template(&mut rng);
        let bl = match baseline(&t) {
            Ok(b) => b,
            Err(e) => {
                rep.count("harness:baseline-rejected");
                rep.inconclusive(&format!("a valid template was not accepted as built ({} {}): {}", t.cfg.name(), t.scenario, e));
                if rep.want_sample() {
                    rep.sample(case_json(&t, &[], &e, "valid template accepted"));
                }
                continue;
            }
        };
        // several fault lists per template
        for _ in 0..3 {
            let faults = choose_faults(&t, &mut rng, only.as_deref());
            let ev = evaluate(&t, &bl, &faults);
            rep.eval();
            rep.count(&format!("scenario:{}", t.scenario));
            rep.count(&format!("session:{:?}", t.cfg.role));
            rep.count(if t.cfg.two_byte { "session:as2" } else { "session:as4" });
            if let Some(f) = t.mp_fam {
                rep.count(&format!("family:{:?}", f));
            }
            rep.count(&format!("faults:{}", faults.len().min(4)));
            let rec = classify(&t, &faults);
            for (f, c) in faults.iter().zip(rec.classes.iter()) {
                rep.count(&format!("fault:{}", f.kind()));
                rep.count(&format!("class:{:?}", c));
                if f.code != 0 && !matches!(f.k, FK::UnknownWk(..)) {
                    rep.count(&format!("attr:{}", if f.code >= 200 { 200 } else { f.code }));
                }
            }
            for nte in &ev.notes {
                rep.count(nte);
                if nte.starts_with("harness:") {
                    rep.inconclusive(&format!("harness self-check failed: {}", nte));
                    if rep.want_sample() {
                        rep.sample(case_json(&t, &faults, &ev.observed, nte));
                    }
                }
            }
            let nontrivial = announces(&t) && rec.classes.iter().zip(faults.iter()).any(|(c, f)| *c != Class::Benign || !matches!(f.k, FK::LowBits(_) | FK::ExtLen | FK::Partial));
            let bytes = build(&t, &faults).bytes;
            if nontrivial {
                let mut k = bytes.clone();
                k.push(t.cfg.role as u8);
                k.push(t.cfg.two_byte as u8);
                k.push(t.cfg.addpath as u8);
                rep.nontrivial(fnv64(&k));
                rep.count("nontrivial");
            }
            let mut seen: BTreeSet<String> = BTreeSet::new();
            for f in &ev.findings {
                if !seen.insert(f.clause.clone()) {
                    continue;
                }
                let min = minimize(&t, &bl, &faults, &f.clause);
                let evm = evaluate(&t, &bl, &min);
                let fm = evm.findings.iter().find(|g| g.clause == f.clause).cloned().unwrap_or(f.clone());
                // a TLV chain that does not end at the end of the attribute block demands
                // withdrawal by itself, whichever faults produced it: one signature
                let sig = match (evm.walk_bad, f.clause.as_str()) {
                    (Some(k), "never-installs") => format!("C05/never-installs/0/{}", k),
                    _ => signature(&f.clause, fm.code, &min),
                };
                rep.count(&format!("finding:{}", f.clause.split('/').next().unwrap_or("")));
                if rep.has_violation(&sig) {
                    rep.violation(&sig, "", Json::Null);
                    continue;
                }
                let what = format!(
                    "{} [{}; faults: {}]",
                    fm.text,
                    t.cfg.name(),
                    if min.is_empty() { "none".to_string() } else { min.iter().map(|f| format!("attr {} {}", f.code, f.kind())).collect::<Vec<_>>().join(", ") }
                );
                rep.violation(&sig, &what, case_json(&t, &min, &evm.observed, &fm.text));
            }
            if rep.want_sample() && nontrivial && rep.evaluations % 211 == 7 {
                rep.sample(case_json(&t, &faults, &ev.observed, "no clause violated"));
            }
        }
    }
    if rep.evaluations < 1000 && params.scale >= 1.0 {
        rep.inconclusive("fewer than 1000 evaluations");
    }
    std::process::exit(rep.finish());
}
