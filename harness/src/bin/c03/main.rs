//! C03 — no byte sequence from the network can panic, wedge or stall a wire decoder.
//!
//! Engine E1: links the real `rustybgp-packet` crate.  Decoders under test:
//! `PeerCodec::try_parse` (+ `validate_message`, + the attribute value decoders
//! the daemon applies to received bytes), `rpki::RtrCodec::decode`,
//! `bfd::Message::decode`.  See DESIGN.md §4 C03.
//!
//! Parameters (argv `key=value`): seed, tier, shard, out, budget_s, scale,
//! part=all|bgp|rtr|bfd, nshards=N (systematic space is partitioned over the
//! shards of one run; the shard index is the numeric suffix of `shard=`),
//! replay=<file written by ./check> or hex=<bytes> decoder=bgp|rtr|bfd
//! codec=<name> cuts=a,b,c for a single input.
mod drive;
mod grow;
mod mutate;
mod seeds;

use drive::{Finding, Term, Trace};
use mutate::Layout;
use rbgp_verif::common::*;
use rustybgp_packet::bgp::PeerCodec;
use seeds::{Corpus, Proto, Seed};
use std::collections::BTreeMap;
use std::sync::Mutex;
use std::sync::atomic::{AtomicU64, Ordering};

pub fn hexs(b: &[u8]) -> String {
    hex(b)
}

static HEART: AtomicU64 = AtomicU64::new(0);
static CURRENT: Mutex<Vec<u8>> = Mutex::new(Vec::new());

fn profile() -> &'static str {
    if cfg!(debug_assertions) { "debug (overflow checks on)" } else { "release (wrapping arithmetic)" }
}

fn mix(mut x: u64) -> u64 {
    x = x.wrapping_add(0x9E37_79B9_7F4A_7C15);
    x = (x ^ (x >> 30)).wrapping_mul(0xBF58_476D_1CE4_E5B9);
    x = (x ^ (x >> 27)).wrapping_mul(0x94D0_49BB_1331_11EB);
    x ^ (x >> 31)
}

struct Entry {
    what: String,
    count: u64,
    decoder: &'static str,
    codec: usize,
    at_buffer: Vec<u8>,
    detail: String,
    origin: String,
    original_input: Vec<u8>,
    cuts: Vec<usize>,
}

struct Ctx {
    rep: Report,
    corpus: Corpus,
    layouts: Vec<Layout>,
    codecs: Vec<PeerCodec>,
    agg: BTreeMap<String, Entry>,
    rng: Rng,
    nshards: u64,
    shard_idx: u64,
    item: u64,
    nt_mod: u64,
}

impl Ctx {
    /// Distinct non-trivial cases are recorded for a hash-selected subsample (1/4 quick,
    /// 1/64 thorough) to keep shard files small: `distinct_nontrivial` is a lower bound.
    fn note_nontrivial(&mut self, h: u64) {
        if mix(h) % self.nt_mod == 0 {
            self.rep.nontrivial(h);
        }
    }

    /// partition of enumerated work items over the shards of one run
    fn mine(&mut self) -> bool {
        let j = self.item;
        self.item += 1;
        j % self.nshards == self.shard_idx
    }

    fn absorb(&mut self, tr: &Trace, decoder: &'static str, codec: usize, origin: &dyn Fn() -> String, input: &[u8], cuts: &[usize]) {
        for c in &tr.counters {
            self.rep.count(c);
        }
        for f in &tr.findings {
            self.record(f, decoder, codec, origin, input, cuts);
        }
    }

    fn record(&mut self, f: &Finding, decoder: &'static str, codec: usize, origin: &dyn Fn() -> String, input: &[u8], cuts: &[usize]) {
        let e = self.agg.entry(f.sig.clone()).or_insert_with(|| {
            eprintln!("[C03] first hit signature={} ({})", f.sig, origin());
            Entry {
                what: f.what.clone(),
                count: 0,
                decoder,
                codec,
                at_buffer: f.at_buffer.clone(),
                detail: f.detail.clone(),
                origin: origin(),
                original_input: input.to_vec(),
                cuts: cuts.to_vec(),
            }
        });
        e.count += 1;
        if f.at_buffer.len() < e.at_buffer.len() {
            e.what = f.what.clone();
            e.decoder = decoder;
            e.codec = codec;
            e.at_buffer = f.at_buffer.clone();
            e.detail = f.detail.clone();
            e.origin = origin();
            e.original_input = input.to_vec();
            e.cuts = cuts.to_vec();
        }
    }

    fn beat(&self, input: &[u8]) {
        HEART.fetch_add(1, Ordering::Relaxed);
        if let Ok(mut g) = CURRENT.try_lock() {
            g.clear();
            g.extend_from_slice(&input[..input.len().min(512)]);
        }
    }

    /// One input under one codec: whole delivery + the given fragmentations,
    /// every clause evaluated on each delivery, fragment-independence across them.
    fn judge_bgp(&mut self, input: &[u8], codec: usize, origin: &dyn Fn() -> String, frags: &[Vec<usize>]) {
        self.beat(input);
        let is_ebgp = fnv64(input) & 1 == 0;
        let max_len = self.corpus.specs[codec].max_len();
        let whole = drive::run_bgp(max_len, &mut self.codecs[codec], input, &[], is_ebgp);
        self.after_bgp(&whole, input, codec, origin, &[]);
        for cuts in frags {
            if cuts.is_empty() {
                continue;
            }
            let fr = drive::run_bgp(max_len, &mut self.codecs[codec], input, cuts, is_ebgp);
            self.after_bgp(&fr, input, codec, origin, cuts);
            self.rep.count("delivery:fragmented");
            self.compare(&whole, &fr, "bgp", codec, origin, input, cuts);
        }
    }

    fn after_bgp(&mut self, tr: &Trace, input: &[u8], codec: usize, origin: &dyn Fn() -> String, cuts: &[usize]) {
        self.rep.eval();
        self.absorb(tr, "bgp", codec, origin, input, cuts);
        for f in &tr.fams {
            self.rep.count(seeds::fam_counter(*f));
        }
        if tr.findings.iter().any(|f| f.sig.starts_with("C03/panic/")) {
            // never reuse a codec object a panic unwound through
            self.codecs[codec] = self.corpus.specs[codec].build();
        }
        if tr.deep {
            self.note_nontrivial(fnv64(input) ^ mix(codec as u64 + 1));
            self.rep.count("nontrivial:bgp");
            // a few complete cases written out: one early, then sparsely (inputs are generated,
            // so "every 100 003rd deep case" spreads the samples over the mutation space)
            if self.rep.want_sample() && (self.rep.samples.is_empty() || self.rep.evaluations % 100_003 == 0) {
                self.rep.sample(Json::obj(vec![
                    ("decoder", Json::s("bgp: try_parse + validate_message (run_select rx loop)")),
                    ("origin", Json::s(origin())),
                    ("codec", Json::Int(codec as i128)),
                    ("input_hex", Json::s(hex(&input[..input.len().min(160)]))),
                    ("input_len", Json::Int(input.len() as i128)),
                    ("fragment_cuts", Json::s(format!("{:?}", &cuts[..cuts.len().min(12)]))),
                    ("messages_decoded", Json::Int(tr.msgs.len() as i128)),
                    ("end_state", Json::s(format!("{:?}", tr.term))),
                ]));
            }
        }
        match &tr.term {
            Term::NeedMore { .. } => self.rep.count("term:need-more"),
            Term::Error(_) => self.rep.count("term:error"),
            Term::Stopped => self.rep.count("term:finding"),
        }
    }

    fn compare(&mut self, whole: &Trace, fr: &Trace, decoder: &'static str, codec: usize, origin: &dyn Fn() -> String, input: &[u8], cuts: &[usize]) {
        if !whole.findings.is_empty() || !fr.findings.is_empty() {
            self.rep.count("fragcmp:skipped-other-finding");
            return;
        }
        self.rep.count("fragcmp:compared");
        if whole.msgs != fr.msgs || whole.term != fr.term {
            let f = Finding {
                sig: format!("C03/fragment-dependence/{}", decoder),
                what: "fragmented and whole delivery of the same bytes give different message sequences / end states".into(),
                at_buffer: input.to_vec(),
                detail: format!(
                    "whole: {} messages, end {:?}; fragmented at {:?}: {} messages, end {:?}",
                    whole.msgs.len(),
                    whole.term,
                    &cuts[..cuts.len().min(16)],
                    fr.msgs.len(),
                    fr.term
                ),
            };
            self.record(&f, decoder, codec, origin, input, cuts);
        }
    }

    fn judge_rtr(&mut self, input: &[u8], origin: &dyn Fn() -> String, frags: &[Vec<usize>]) {
        self.beat(input);
        let whole = drive::run_rtr(input, &[]);
        self.after_simple(&whole, "rtr", input, origin, &[]);
        for cuts in frags {
            if cuts.is_empty() {
                continue;
            }
            let fr = drive::run_rtr(input, cuts);
            self.after_simple(&fr, "rtr", input, origin, cuts);
            self.rep.count("delivery:fragmented");
            self.compare(&whole, &fr, "rtr", 0, origin, input, cuts);
        }
    }

    fn judge_bfd(&mut self, input: &[u8], origin: &dyn Fn() -> String) {
        self.beat(input);
        let tr = drive::run_bfd(input);
        self.after_simple(&tr, "bfd", input, origin, &[]);
    }

    fn after_simple(&mut self, tr: &Trace, decoder: &'static str, input: &[u8], origin: &dyn Fn() -> String, cuts: &[usize]) {
        self.rep.eval();
        self.absorb(tr, decoder, 0, origin, input, cuts);
        if tr.deep {
            self.note_nontrivial(fnv64(input) ^ mix(fnv64(decoder.as_bytes())));
            self.rep.count(if decoder == "rtr" { "nontrivial:rtr" } else { "nontrivial:bfd" });
        }
    }

    fn frags_for(&mut self, len: usize, bytewise: bool) -> Vec<Vec<usize>> {
        let mut v = vec![mutate::random_cuts(&mut self.rng, len)];
        if bytewise && len <= 400 {
            v.push((1..len).collect());
        }
        v
    }
}

// ------------------------------------------------------------------ phases

/// Every seed, unmutated, under its home codec (whole, byte-by-byte, random).
fn phase_baseline(ctx: &mut Ctx, sparse: bool) {
    let mut rejected: Vec<String> = Vec::new();
    for si in 0..ctx.corpus.seeds.len() {
        if !ctx.mine() || (sparse && (si % 16 != 0 || ctx.corpus.seeds[si].bytes.len() > 200)) {
            continue;
        }
        if !ctx.rep.in_budget() {
            break;
        }
        let s = ctx.corpus.seeds[si].clone();
        let frags = ctx.frags_for(s.bytes.len(), !sparse);
        let oname = s.name.clone();
        let origin = move || format!("seed {} (unmutated)", oname);
        match s.proto {
            Proto::Bgp => {
                let max_len = ctx.corpus.specs[s.home].max_len();
                let tr = drive::run_bgp(max_len, &mut ctx.codecs[s.home], &s.bytes, &[], true);
                let ok = tr.findings.is_empty() && !tr.msgs.is_empty() && tr.term == (Term::NeedMore { residual: 0 });
                ctx.rep.count(if ok { "baseline:accepted" } else { "baseline:not-accepted" });
                ctx.rep.count(if s.from_encoder { "seed:from-encoder" } else { "seed:from-template" });
                ctx.rep.count(&format!("seed-kind:{}", s.kind));
                if ok {
                    if let Some(f) = s.family {
                        ctx.rep.count(&format!("baseline-accepted:{}", seeds::fam_name(f)));
                    }
                } else {
                    rejected.push(format!("{} -> {:?}", s.name, tr.term));
                }
                ctx.judge_bgp(&s.bytes, s.home, &origin, &frags);
            }
            Proto::Rtr => {
                ctx.rep.count("seed:rtr");
                ctx.judge_rtr(&s.bytes, &origin, &frags);
            }
            Proto::Bfd => {
                ctx.rep.count("seed:bfd");
                ctx.judge_bfd(&s.bytes, &origin);
            }
        }
    }
    rejected.truncate(40);
    ctx.rep.extra("baseline_not_accepted", Json::strs(rejected));
}

fn alt_codec(ctx: &Ctx, si: usize, h: u64) -> usize {
    let n = ctx.corpus.specs.len();
    if let Some(f) = ctx.corpus.seeds[si].family {
        if h % 4 != 0 {
            // a codec that negotiated the family (different add-path / AS width / sizes)
            let with: Vec<usize> = (0..n).filter(|i| ctx.corpus.specs[*i].has(f)).collect();
            if !with.is_empty() {
                return with[(h / 4) as usize % with.len()];
            }
        }
    }
    (h / 4) as usize % n
}

/// Share of each mutation class visited at the quick tier (thorough: all of it).
/// Length fields, truncation, attribute surgery are always complete; the wide
/// value sweeps are sampled, differently for every VERIF_SEED.
fn quick_rate_ppm(label: &str) -> u64 {
    match label {
        "mut:type-sweep" | "mut:region-lead-sweep" => 50_000,
        "mut:len-pair" | "mut:region-boundary" | "mut:region-window" => 250_000,
        _ => 1_000_000,
    }
}

/// The systematic mutation space of every BGP seed.  `sweep_rate` < 1 samples
/// the 256-value sweeps (the structured classes are always visited completely);
/// `sample` = Some(n) visits n seeded random indices instead (tiny runs: Miri).
fn phase_bgp_systematic(ctx: &mut Ctx, sweep_rate: f64, sample: Option<u64>) {
    let bgp: Vec<usize> = (0..ctx.corpus.seeds.len()).filter(|i| ctx.corpus.seeds[*i].proto == Proto::Bgp).collect();
    let mut prefix: Vec<u64> = Vec::with_capacity(bgp.len() + 1);
    let mut total = 0u64;
    for &si in &bgp {
        prefix.push(total);
        total += mutate::count(&ctx.layouts[si]) as u64;
    }
    prefix.push(total);
    ctx.rep.max("space:bgp-systematic-total", total);
    let order_seed = (ctx.rep.params.seed / 1000).wrapping_mul(0x1234_5678_9abc_def1);
    let complete = sweep_rate >= 1.0;
    let mut done = 0u64;
    let mut finished = true;
    let n = sample.unwrap_or(total);
    let mut pos = 0usize;
    for j in 0..n {
        let g = if sample.is_some() { mix(j ^ order_seed) % total.max(1) } else { j };
        if sample.is_some() {
            pos = match prefix.binary_search(&g) {
                Ok(p) => p,
                Err(p) => p - 1,
            };
        }
        while pos + 1 < bgp.len() && prefix[pos + 1] <= g {
            pos += 1;
        }
        let si = bgp[pos];
        let k = (g - prefix[pos]) as usize;
        if k >= mutate::count(&ctx.layouts[si]) {
            continue;
        }
        let (m, label) = mutate::nth(&ctx.layouts[si], k);
        if sample.is_none() && !complete {
            let ppm = (quick_rate_ppm(label) as f64 * (sweep_rate * 10.0).min(1.0)) as u64;
            if mix(g ^ order_seed) % 1_000_000 >= ppm {
                continue;
            }
        }
        if !ctx.mine() {
            continue;
        }
        if done % 64 == 0 && !ctx.rep.in_budget() {
            finished = false;
            break;
        }
        let bytes = mutate::apply(&ctx.corpus.seeds[si].bytes, &ctx.layouts[si], &m);
        let home = ctx.corpus.seeds[si].home;
        ctx.rep.count(label);
        let sname: &str = &ctx.corpus.seeds[si].name.clone();
        let origin = || format!("seed {} + {} {:?}", sname, label, m);
        let h = mix(g ^ 0xC03);
        let frags = ctx.frags_for(bytes.len(), h % 8 == 0);
        ctx.judge_bgp(&bytes, home, &origin, &frags);
        let alt = alt_codec(ctx, si, h);
        if alt != home {
            ctx.judge_bgp(&bytes, alt, &origin, &[]);
        }
        done += 1;
    }
    ctx.rep.count_n("inputs:bgp-systematic", done);
    if sample.is_none() {
        // complete for the structured classes; complete for the sweeps too when sweep_rate == 1
        ctx.rep.count(if finished { "systematic:finished" } else { "systematic:cut-by-budget" });
        if complete && finished {
            ctx.rep.count("systematic:complete-space-visited");
        }
        // the property's domain (all byte strings) is never exhausted: only the
        // enumerated mutation space can be complete, which the counters above say
        ctx.rep.exhaustive = Some(false);
    }
}

/// Mutation class "inner length beyond its legal range, every enclosing
/// length grown consistently, real bytes inserted" (see grow.rs).  Small
/// space: visited completely at every tier (a seeded sample under Miri).
fn phase_bgp_grow(ctx: &mut Ctx, sample_ppm: u64) {
    let bgp: Vec<usize> = (0..ctx.corpus.seeds.len()).filter(|i| ctx.corpus.seeds[*i].proto == Proto::Bgp).collect();
    let order_seed = (ctx.rep.params.seed / 1000).wrapping_mul(0x9e37_79b9_7f4a_7c15);
    let mut done = 0u64;
    let mut space = 0u64;
    let mut finished = true;
    'seeds: for si in bgp {
        let home = ctx.corpus.seeds[si].home;
        let spec = ctx.corpus.specs[home].clone();
        let nodes = grow::len_tree(&ctx.corpus.seeds[si].bytes, &ctx.layouts[si], &|f| spec.ap(f));
        let n = grow::count(&nodes);
        space += n as u64;
        for k in 0..n {
            if sample_ppm < 1_000_000 && mix((si as u64) << 32 ^ k as u64 ^ order_seed) % 1_000_000 >= sample_ppm {
                continue;
            }
            if !ctx.mine() {
                continue;
            }
            if done % 64 == 0 && !ctx.rep.in_budget() {
                finished = false;
                break 'seeds;
            }
            let Some((bytes, bucket, what)) = grow::nth(&ctx.corpus.seeds[si].bytes, &nodes, k) else {
                ctx.rep.count("grow:not-representable");
                continue;
            };
            ctx.rep.count("mut:grow-consistent");
            ctx.rep.count(bucket);
            let sname: &str = &ctx.corpus.seeds[si].name.clone();
            let origin = || format!("seed {} + consistently grown {}", sname, what);
            let h = mix((si as u64) << 32 ^ k as u64 ^ 0xC03);
            let frags = ctx.frags_for(bytes.len(), h % 8 == 0);
            ctx.judge_bgp(&bytes, home, &origin, &frags);
            if h % 4 == 1 {
                let alt = alt_codec(ctx, si, h);
                if alt != home {
                    ctx.judge_bgp(&bytes, alt, &origin, &[]);
                }
            }
            done += 1;
        }
    }
    ctx.rep.max("space:bgp-grow-total", space);
    ctx.rep.count_n("inputs:bgp-grow", done);
    ctx.rep.count(if finished { "grow:finished" } else { "grow:cut-by-budget" });
}

fn pick_bgp_seed(ctx: &mut Ctx) -> usize {
    loop {
        let i = ctx.rng.usize(ctx.corpus.seeds.len());
        if ctx.corpus.seeds[i].proto == Proto::Bgp && ctx.corpus.seeds[i].bytes.len() <= 5000 {
            return i;
        }
    }
}

fn havoc(rng: &mut Rng, v: &mut Vec<u8>) {
    let ops = 1 + rng.usize(4);
    for _ in 0..ops {
        if v.is_empty() {
            v.push(rng.next_u64() as u8);
            continue;
        }
        let p = rng.usize(v.len());
        match rng.below(7) {
            0 => v[p] = rng.next_u64() as u8,
            1 => v[p] ^= 1 << rng.below(8),
            2 => v[p] = *rng.pick(&[0u8, 1, 0x7f, 0x80, 0xff, 0x18, 0x20, 0x21, 0x40]),
            3 => {
                v.insert(p, rng.next_u64() as u8);
            }
            4 => {
                v.remove(p);
            }
            5 => {
                // duplicate a short chunk (label stacks, TLVs, operators)
                let n = 1 + rng.usize(8.min(v.len() - p));
                let chunk: Vec<u8> = v[p..p + n].to_vec();
                let reps = 1 + rng.usize(12);
                for _ in 0..reps {
                    let at = p;
                    for (i, b) in chunk.iter().enumerate() {
                        v.insert(at + i, *b);
                    }
                }
            }
            _ => {
                let n = 1 + rng.usize(4.min(v.len() - p));
                v.drain(p..p + n);
            }
        }
    }
}

/// A well-framed UPDATE around a mutated NLRI / next hop of a random family:
/// every outer length is consistent, so the bytes reach the per-family decoder.
fn framed_nlri_havoc(ctx: &mut Ctx) -> (Vec<u8>, usize, String) {
    let fams = seeds::families();
    let f = *ctx.rng.pick(&fams);
    let reach = ctx.rng.chance(3, 4);
    let tmpl = if reach { seeds::nlri_templates(f) } else { seeds::nlri_unreach_templates(f) };
    let mut nlri: Vec<u8> = Vec::new();
    let ap = ctx.rng.bool();
    let n = 1 + ctx.rng.usize(3);
    for i in 0..n {
        if ap {
            nlri.extend_from_slice(&(i as u32).to_be_bytes());
        }
        let mut one = ctx.rng.pick(&tmpl).clone();
        if ctx.rng.chance(2, 3) {
            havoc(&mut ctx.rng, &mut one);
        }
        nlri.extend_from_slice(&one);
    }
    let mut nh = ctx.rng.pick(&seeds::nexthop_templates(f)).clone();
    if ctx.rng.chance(1, 6) {
        havoc(&mut ctx.rng, &mut nh);
    }
    let mut attrs = seeds::base_attrs(true);
    let bytes = if f == rustybgp_packet::bgp::Family::IPV4 && ctx.rng.bool() {
        attrs.extend_from_slice(&seeds::hx("40 03 04 c0000201"));
        if reach { seeds::update_frame(&[], &attrs, &nlri) } else { seeds::update_frame(&nlri, &[], &[]) }
    } else if reach {
        attrs.extend_from_slice(&seeds::mp_reach(f, &nh, &nlri));
        seeds::update_frame(&[], &attrs, &[])
    } else {
        seeds::update_frame(&[], &seeds::mp_unreach(f, &nlri), &[])
    };
    let name = if f == rustybgp_packet::bgp::Family::IPV4 {
        if ap { "v4-ap".to_string() } else { "v4".to_string() }
    } else {
        format!("v4+{}{}", seeds::fam_name(f), if ap { "-ap" } else { "" })
    };
    let mut codec = ctx.corpus.specs.iter().position(|s| s.name == name).unwrap_or(0);
    if ctx.rng.chance(1, 5) {
        codec = ctx.rng.usize(ctx.corpus.specs.len());
    }
    (bytes, codec, format!("framed NLRI havoc family={} reach={} addpath-ids={}", seeds::fam_name(f), reach, ap))
}

/// A well-framed UPDATE around a mutated attribute value (TLV attributes, AS paths ...).
fn framed_attr_havoc(ctx: &mut Ctx) -> (Vec<u8>, usize, String) {
    let as4 = ctx.rng.chance(3, 4);
    let pool = seeds::attr_templates(as4);
    let mut attrs = seeds::base_attrs(as4);
    attrs.extend_from_slice(&seeds::hx("40 03 04 c0000201"));
    let k = 1 + ctx.rng.usize(3);
    let mut names = Vec::new();
    for _ in 0..k {
        let (name, a) = ctx.rng.pick(&pool).clone();
        // split header / value, mutate the value, re-frame with a correct length
        let ext = a[0] & 0x10 != 0;
        let hdr = if ext { 4 } else { 3 };
        let mut val = a[hdr..].to_vec();
        havoc(&mut ctx.rng, &mut val);
        let flags = if ctx.rng.chance(1, 10) { ctx.rng.next_u64() as u8 } else { a[0] };
        attrs.extend_from_slice(&seeds::attr_bytes(flags, a[1], &val));
        names.push(name);
    }
    let bytes = seeds::update_frame(&[], &attrs, &seeds::hx("180a0102"));
    let name = if as4 { "v4" } else { "v4-as2" };
    let codec = ctx.corpus.specs.iter().position(|s| s.name == name).unwrap_or(0);
    (bytes, codec, format!("framed attribute havoc {:?}", names))
}

fn phase_bgp_random(ctx: &mut Ctx, n: u64) {
    let mut done = 0u64;
    for j in 0..n {
        if j % 64 == 0 && !ctx.rep.in_budget() {
            break;
        }
        let mode = ctx.rng.below(100);
        let (bytes, codec, origin): (Vec<u8>, usize, String) = if mode < 30 {
            ctx.rep.count("rand:framed-nlri-havoc");
            framed_nlri_havoc(ctx)
        } else if mode < 42 {
            ctx.rep.count("rand:framed-attr-havoc");
            framed_attr_havoc(ctx)
        } else if mode < 54 {
            // splice: head of one seed, tail of another
            ctx.rep.count("rand:splice");
            let a = pick_bgp_seed(ctx);
            let b = pick_bgp_seed(ctx);
            let sa = ctx.corpus.seeds[a].bytes.clone();
            let sb = ctx.corpus.seeds[b].bytes.clone();
            let ca = 19 + ctx.rng.usize(sa.len().saturating_sub(18).max(1));
            let cb = ctx.rng.usize(sb.len().max(1));
            let mut v = sa[..ca.min(sa.len())].to_vec();
            v.extend_from_slice(&sb[cb.min(sb.len())..]);
            if ctx.rng.chance(3, 4) {
                mutate::fix_header(&mut v);
            }
            let home = ctx.corpus.seeds[a].home;
            (v, home, format!("splice {}[..{}] + {}[{}..]", ctx.corpus.seeds[a].name, ca, ctx.corpus.seeds[b].name, cb))
        } else if mode < 68 {
            // stream of several frames, some mutated, optional garbage tail
            ctx.rep.count("rand:stream");
            let k = 2 + ctx.rng.usize(3);
            let mut v = Vec::new();
            let mut names = Vec::new();
            let first = pick_bgp_seed(ctx);
            let home = ctx.corpus.seeds[first].home;
            for i in 0..k {
                let si = if i == 0 { first } else { pick_bgp_seed(ctx) };
                let s = ctx.corpus.seeds[si].clone();
                if ctx.rng.chance(1, 3) {
                    let c = mutate::count(&ctx.layouts[si]);
                    if c > 0 {
                        let (m, _) = mutate::nth(&ctx.layouts[si], ctx.rng.usize(c));
                        v.extend_from_slice(&mutate::apply(&s.bytes, &ctx.layouts[si], &m));
                        names.push(format!("{}*", s.name));
                        continue;
                    }
                }
                v.extend_from_slice(&s.bytes);
                names.push(s.name);
            }
            if ctx.rng.chance(1, 4) {
                let t = ctx.rng.usize(24);
                v.extend_from_slice(&ctx.rng.bytes(t));
            }
            (v, home, format!("stream {:?}", names))
        } else if mode < 80 {
            // random flips / inserts / deletes anywhere in a seed, header length re-fixed or not
            ctx.rep.count("rand:havoc");
            let si = pick_bgp_seed(ctx);
            let s = ctx.corpus.seeds[si].clone();
            let mut v = s.bytes.clone();
            let mut body = v.split_off(19.min(v.len()));
            havoc(&mut ctx.rng, &mut body);
            v.extend_from_slice(&body);
            if ctx.rng.chance(2, 3) {
                mutate::fix_header(&mut v);
            }
            (v, s.home, format!("havoc on {}", s.name))
        } else if mode < 88 {
            // a region of a seed overwritten with random bytes, all lengths intact
            ctx.rep.count("rand:region-random");
            let si = pick_bgp_seed(ctx);
            let s = ctx.corpus.seeds[si].clone();
            let mut v = s.bytes.clone();
            let regs = ctx.layouts[si].regions.clone();
            if !regs.is_empty() {
                let r = ctx.rng.pick(&regs).clone();
                for b in v[r.start..r.end.min(s.bytes.len())].iter_mut() {
                    if ctx.rng.chance(1, 2) {
                        *b = ctx.rng.next_u64() as u8;
                    }
                }
            }
            (v, s.home, format!("random region in {}", s.name))
        } else if mode < 95 {
            // valid header, random type 0..6, random body
            ctx.rep.count("rand:header-valid-random-body");
            let t = ctx.rng.below(7) as u8;
            let cap = if ctx.rng.chance(1, 20) { 4200 } else { 120 };
            let n = ctx.rng.usize(cap);
            let body = ctx.rng.bytes(n);
            let v = seeds::bgp_frame(t, &body);
            let c = ctx.rng.usize(ctx.corpus.specs.len());
            (v, c, format!("random body type {} len {}", t, n))
        } else {
            ctx.rep.count("rand:random-bytes");
            let n = ctx.rng.usize(64);
            let mut v = ctx.rng.bytes(n);
            if ctx.rng.bool() {
                for b in v.iter_mut().take(16) {
                    *b = 0xff;
                }
            }
            let c = ctx.rng.usize(ctx.corpus.specs.len());
            (v, c, "random bytes".to_string())
        };
        let frags = ctx.frags_for(bytes.len(), j % 16 == 0);
        ctx.judge_bgp(&bytes, codec, &|| origin.clone(), &frags);
        done += 1;
    }
    ctx.rep.count_n("inputs:bgp-random", done);
}

fn rtr_len_values(v: usize, buffered: usize) -> Vec<u32> {
    let mut x: Vec<u64> = (0..=12).collect();
    x.extend_from_slice(&[
        v as u64,
        v.wrapping_sub(1) as u64,
        v as u64 + 1,
        buffered as u64,
        buffered.wrapping_sub(1) as u64,
        buffered as u64 + 1,
        0xff,
        0x100,
        0xffff,
        0x1_0000,
        0x7fff_ffff,
        0x8000_0000,
        0xffff_ffff,
    ]);
    let mut y: Vec<u32> = x.into_iter().map(|a| a as u32).collect();
    y.sort_unstable();
    y.dedup();
    y
}

fn phase_rtr(ctx: &mut Ctx, keep_num: u64, keep_den: u64, random_n: u64) {
    let rtr: Vec<Seed> = ctx.corpus.seeds.iter().filter(|s| s.proto == Proto::Rtr).cloned().collect();
    let follow = seeds::rtr_pdu(1, 8, 0, &[]); // a valid Cache Reset following the mutated PDU
    let mut inputs: u64 = 0;
    let mut emit = |ctx: &mut Ctx, make: &dyn Fn() -> Vec<u8>, label: &'static str, origin: &dyn Fn() -> String, bytewise: bool| {
        let j = ctx.item;
        if !ctx.mine() || mix(j ^ 0x517) % keep_den >= keep_num {
            return;
        }
        if !ctx.rep.in_budget() {
            return;
        }
        let bytes = make();
        ctx.rep.count(label);
        let frags = ctx.frags_for(bytes.len(), bytewise);
        ctx.judge_rtr(&bytes, origin, &frags);
        inputs += 1;
    };
    for s in &rtr {
        if !ctx.rep.in_budget() {
            break;
        }
        if s.bytes.len() < 8 {
            continue;
        }
        let v = u32::from_be_bytes([s.bytes[4], s.bytes[5], s.bytes[6], s.bytes[7]]) as usize;
        let with_len = |lv: u32| {
            let mut b = s.bytes.clone();
            b[4..8].copy_from_slice(&lv.to_be_bytes());
            b
        };
        // 1. the PDU length field: alone, followed by a valid PDU, and padded up to the claimed length
        for lv in rtr_len_values(v, s.bytes.len()) {
            emit(ctx, &|| with_len(lv), "mut-rtr:length", &|| format!("seed {} length:={}", s.name, lv), true);
            emit(
                ctx,
                &|| {
                    let mut c = with_len(lv);
                    c.extend_from_slice(&follow);
                    c
                },
                "mut-rtr:length+next-pdu",
                &|| format!("seed {} length:={} + cache-reset", s.name, lv),
                true,
            );
            if (lv as usize) > s.bytes.len() && lv <= 5000 {
                emit(
                    ctx,
                    &|| {
                        let mut d = with_len(lv);
                        d.resize(lv as usize, 0);
                        d
                    },
                    "mut-rtr:length+padded",
                    &|| format!("seed {} length:={} padded", s.name, lv),
                    false,
                );
            }
        }
        // 2. type byte and version byte sweeps (incl. 9, 11..255), alone and followed by a valid PDU
        for t in 0..=255u8 {
            let with_type = || {
                let mut b = s.bytes.clone();
                b[1] = t;
                b
            };
            emit(ctx, &with_type, "mut-rtr:type-sweep", &|| format!("seed {} type:={}", s.name, t), false);
            emit(
                ctx,
                &|| {
                    let mut b = with_type();
                    b.extend_from_slice(&follow);
                    b
                },
                "mut-rtr:type-sweep+next-pdu",
                &|| format!("seed {} type:={} + cache-reset", s.name, t),
                false,
            );
            emit(
                ctx,
                &|| {
                    let mut c = s.bytes.clone();
                    c[0] = t;
                    c
                },
                "mut-rtr:version-sweep",
                &|| format!("seed {} version:={}", s.name, t),
                false,
            );
        }
        // 3. truncation at every offset, with and without the length field following
        for at in 0..s.bytes.len() {
            emit(ctx, &|| s.bytes[..at].to_vec(), "mut-rtr:truncate", &|| format!("seed {} truncated at {}", s.name, at), true);
            if at >= 8 {
                emit(
                    ctx,
                    &|| {
                        let mut b = s.bytes[..at].to_vec();
                        b[4..8].copy_from_slice(&(at as u32).to_be_bytes());
                        b
                    },
                    "mut-rtr:truncate+fix-length",
                    &|| format!("seed {} truncated at {} length fixed", s.name, at),
                    true,
                );
            }
        }
        // 4. boundary values in every body byte
        for off in 8..s.bytes.len().min(48) {
            for val in [0u8, 1, 0x20, 0x21, 0x7f, 0x80, 0x81, 0xff] {
                emit(
                    ctx,
                    &|| {
                        let mut b = s.bytes.clone();
                        b[off] = val;
                        b
                    },
                    "mut-rtr:body-byte",
                    &|| format!("seed {} byte {}:={}", s.name, off, val),
                    false,
                );
            }
        }
        // 5. pairs of disagreeing lengths: type t with the fixed size of type u
        for u in &rtr {
            if u.bytes.len() >= 8 && u.bytes.len() != s.bytes.len() && u.bytes.len() <= 64 {
                let retyped = || {
                    let mut b = s.bytes.clone();
                    b[1] = u.bytes[1];
                    b
                };
                emit(ctx, &retyped, "mut-rtr:type-of-other-size", &|| format!("seed {} with type of {}", s.name, u.name), true);
                emit(
                    ctx,
                    &|| {
                        let mut b = retyped();
                        b.extend_from_slice(&u.bytes);
                        b
                    },
                    "mut-rtr:stream-pair",
                    &|| format!("seed {} (type of {}) + {}", s.name, u.name, u.name),
                    true,
                );
            }
        }
    }
    // random
    for j in 0..random_n {
        if j % 64 == 0 && !ctx.rep.in_budget() {
            break;
        }
        let mode = ctx.rng.below(4);
        let bytes = match mode {
            0 => {
                let n = ctx.rng.usize(48);
                ctx.rng.bytes(n)
            }
            1 => {
                // plausible header, random body
                let n = ctx.rng.usize(40);
                let t = if ctx.rng.bool() { ctx.rng.below(12) as u8 } else { ctx.rng.next_u64() as u8 };
                let mut b = seeds::rtr_pdu(ctx.rng.below(3) as u8, t, ctx.rng.next_u64() as u16, &ctx.rng.bytes(n));
                if ctx.rng.chance(1, 3) {
                    let l = ctx.rng.below(64) as u32;
                    b[4..8].copy_from_slice(&l.to_be_bytes());
                }
                b
            }
            2 => {
                let mut v = Vec::new();
                for _ in 0..(2 + ctx.rng.usize(3)) {
                    let s = ctx.rng.pick(&rtr).clone();
                    v.extend_from_slice(&s.bytes);
                }
                if ctx.rng.bool() {
                    havoc(&mut ctx.rng, &mut v);
                }
                v
            }
            _ => {
                let mut v = ctx.rng.pick(&rtr).bytes.clone();
                havoc(&mut ctx.rng, &mut v);
                v
            }
        };
        ctx.rep.count("mut-rtr:random");
        let frags = ctx.frags_for(bytes.len(), j % 4 == 0);
        ctx.judge_rtr(&bytes, &|| "random RTR input".to_string(), &frags);
        inputs += 1;
    }
    ctx.rep.count_n("inputs:rtr", inputs);
}

fn phase_bfd(ctx: &mut Ctx, keep_num: u64, keep_den: u64, random_n: u64) {
    let bfd: Vec<Seed> = ctx.corpus.seeds.iter().filter(|s| s.proto == Proto::Bfd).cloned().collect();
    let mut inputs = 0u64;
    let mut emit = |ctx: &mut Ctx, make: &dyn Fn() -> Vec<u8>, label: &'static str, origin: &dyn Fn() -> String| {
        let j = ctx.item;
        if !ctx.mine() || mix(j ^ 0xbfd) % keep_den >= keep_num {
            return;
        }
        if !ctx.rep.in_budget() {
            return;
        }
        let bytes = make();
        ctx.rep.count(label);
        ctx.judge_bfd(&bytes, origin);
        inputs += 1;
    };
    for s in &bfd {
        for v in 0..=255u8 {
            for off in 0..4usize {
                let set = || {
                    let mut b = s.bytes.clone();
                    b[off] = v;
                    b
                };
                emit(ctx, &set, if off == 3 { "mut-bfd:length" } else { "mut-bfd:header-byte-sweep" }, &|| format!("seed {} byte {}:={}", s.name, off, v));
                if off == 3 {
                    // the buffer really has that many bytes
                    emit(
                        ctx,
                        &|| {
                            let mut b = set();
                            b.resize(v as usize, 0x41);
                            if b.len() > 3 {
                                b[3] = v;
                            }
                            b
                        },
                        "mut-bfd:length+resized",
                        &|| format!("seed {} length:={} resized", s.name, v),
                    );
                }
            }
        }
        for at in 0..=s.bytes.len() {
            emit(ctx, &|| s.bytes[..at].to_vec(), "mut-bfd:truncate", &|| format!("seed {} truncated at {}", s.name, at));
            emit(
                ctx,
                &|| {
                    let mut b = s.bytes[..at].to_vec();
                    if b.len() > 3 {
                        b[3] = at as u8;
                    }
                    b
                },
                "mut-bfd:truncate+fix-length",
                &|| format!("seed {} truncated at {} length fixed", s.name, at),
            );
        }
        for extra in [1usize, 2, 8, 200, 231, 232, 1000] {
            let ext = || {
                let mut b = s.bytes.clone();
                b.resize(s.bytes.len() + extra, 0);
                b
            };
            emit(ctx, &ext, "mut-bfd:extend", &|| format!("seed {} + {} bytes", s.name, extra));
            emit(
                ctx,
                &|| {
                    let mut b = ext();
                    b[3] = b.len() as u8;
                    b
                },
                "mut-bfd:extend+fix-length",
                &|| format!("seed {} + {} bytes length fixed", s.name, extra),
            );
        }
        for off in 4..s.bytes.len() {
            for val in [0u8, 1, 0x7f, 0x80, 0xff] {
                emit(
                    ctx,
                    &|| {
                        let mut b = s.bytes.clone();
                        b[off] = val;
                        b
                    },
                    "mut-bfd:body-byte",
                    &|| format!("seed {} byte {}:={}", s.name, off, val),
                );
            }
        }
    }
    for j in 0..random_n {
        if j % 64 == 0 && !ctx.rep.in_budget() {
            break;
        }
        let bytes = if ctx.rng.bool() {
            let n = ctx.rng.usize(64);
            let mut b = ctx.rng.bytes(n);
            if b.len() > 3 && ctx.rng.bool() {
                b[3] = b.len() as u8;
                b[0] = 0x20 | (b[0] & 0x1f);
            }
            b
        } else {
            let mut v = ctx.rng.pick(&bfd).bytes.clone();
            havoc(&mut ctx.rng, &mut v);
            if v.len() > 3 && ctx.rng.bool() {
                v[3] = v.len() as u8;
            }
            v
        };
        ctx.rep.count("mut-bfd:random");
        ctx.judge_bfd(&bytes, &|| "random BFD input".to_string());
        inputs += 1;
    }
    ctx.rep.count_n("inputs:bfd", inputs);
}

// ------------------------------------------------------------------ shrinking / reporting

fn reproduces(ctx: &mut Ctx, decoder: &str, codec: usize, bytes: &[u8], sig: &str) -> bool {
    let tr = match decoder {
        "bgp" => {
            let spec = ctx.corpus.specs[codec].clone();
            let mut c = spec.build();
            let a = drive::run_bgp(spec.max_len(), &mut c, bytes, &[], true);
            if a.findings.iter().any(|f| f.sig == sig) {
                return true;
            }
            let mut c = spec.build();
            drive::run_bgp(spec.max_len(), &mut c, bytes, &[], false)
        }
        "rtr" => drive::run_rtr(bytes, &[]),
        _ => drive::run_bfd(bytes),
    };
    tr.findings.iter().any(|f| f.sig == sig)
}

/// Greedy chunk deletion keeping the signature; BGP header length re-fixed.
fn shrink(ctx: &mut Ctx, decoder: &str, codec: usize, start: &[u8], sig: &str) -> Vec<u8> {
    let hdr = match decoder {
        "bgp" => 19,
        "rtr" => 8,
        _ => return start.to_vec(),
    };
    let mut cur = start.to_vec();
    if !reproduces(ctx, decoder, codec, &cur, sig) {
        return cur;
    }
    let mut attempts = 0;
    for chunk in [64usize, 16, 8, 4, 2, 1] {
        let mut off = cur.len();
        while off > hdr {
            if attempts > 4000 {
                return cur;
            }
            let lo = off.saturating_sub(chunk).max(hdr);
            if lo == off {
                break;
            }
            let mut cand = cur[..lo].to_vec();
            cand.extend_from_slice(&cur[off..]);
            let mut variants = vec![];
            if decoder == "bgp" {
                if let Some(c) = mutate::delete_consistent(&cur, lo, off) {
                    variants.push(c);
                }
                let mut f = cand.clone();
                mutate::fix_header(&mut f);
                variants.push(f);
            }
            variants.push(cand);
            let mut accepted = false;
            for v in variants {
                attempts += 1;
                if reproduces(ctx, decoder, codec, &v, sig) {
                    cur = v;
                    accepted = true;
                    break;
                }
            }
            off = if accepted { lo.min(cur.len()) } else { lo };
        }
    }
    cur
}

fn finalize(ctx: &mut Ctx) {
    let sigs: Vec<String> = ctx.agg.keys().cloned().collect();
    for sig in sigs {
        let (decoder, codec, at_buffer, frag) = {
            let e = &ctx.agg[&sig];
            (e.decoder, e.codec, e.at_buffer.clone(), sig.contains("fragment-dependence"))
        };
        let min_input = if frag || cfg!(miri) { at_buffer.clone() } else { shrink(ctx, decoder, codec, &at_buffer, &sig) };
        let whole_reproduces = !frag && reproduces(ctx, decoder, codec, &min_input, &sig);
        let e = &ctx.agg[&sig];
        let cuts: Vec<String> = e.cuts.iter().take(64).map(|c| c.to_string()).collect();
        let witness = Json::obj(vec![
            ("decoder", Json::s(decoder)),
            ("codec_name", Json::s(ctx.corpus.specs[codec].name.clone())),
            ("codec", Json::s(if decoder == "bgp" { ctx.corpus.specs[codec].describe() } else { "-".to_string() })),
            ("profile", Json::s(profile())),
            ("input_hex", Json::s(hex(&min_input))),
            ("input_len", Json::Int(min_input.len() as i128)),
            ("delivery", Json::s(if frag { "whole vs. fragmented at `cuts`" } else { "whole (one read)" })),
            ("cuts", Json::s(if frag { cuts.join(",") } else { String::new() })),
            ("reproduces_in_isolation", Json::Bool(frag || whole_reproduces)),
            ("observed", Json::s(e.detail.clone())),
            ("found_by", Json::s(e.origin.clone())),
            ("unshrunk_buffer_hex", Json::s(hex(&e.at_buffer[..e.at_buffer.len().min(400)]))),
            ("original_input_hex", Json::s(hex(&e.original_input[..e.original_input.len().min(400)]))),
        ]);
        let what = e.what.clone();
        let count = e.count;
        ctx.rep.violation(&sig, &what, witness);
        if let Some(v) = ctx.rep.violations.iter_mut().find(|v| v.signature == sig) {
            v.count = count;
        }
    }
}

// ------------------------------------------------------------------ replay

fn extract_str(text: &str, key: &str) -> Option<String> {
    let pat = format!("\"{}\"", key);
    let i = text.find(&pat)? + pat.len();
    let rest = &text[i..];
    let q = rest.find('"')?;
    if !rest[..q].trim().trim_start_matches(':').trim().is_empty() {
        return None;
    }
    let rest = &rest[q + 1..];
    let end = rest.find('"')?;
    Some(rest[..end].to_string())
}

fn replay(ctx: &mut Ctx, decoder: &str, codec_name: &str, input: &[u8], cuts: &[usize]) {
    let codec = ctx.corpus.specs.iter().position(|s| s.name == codec_name).unwrap_or(0);
    let frags: Vec<Vec<usize>> = if cuts.is_empty() { vec![] } else { vec![cuts.to_vec()] };
    match decoder {
        "bgp" => ctx.judge_bgp(input, codec, &|| "replay".to_string(), &frags),
        "rtr" => ctx.judge_rtr(input, &|| "replay".to_string(), &frags),
        _ => ctx.judge_bfd(input, &|| "replay".to_string()),
    }
    ctx.rep.count("replayed");
}

fn parse_cuts(s: &str) -> Vec<usize> {
    s.split(',').filter_map(|x| x.trim().parse().ok()).collect()
}

// ------------------------------------------------------------------ main

fn main() {
    let params = Params::from_args_env();
    let rule = "case = one byte string delivered to one decoder under one negotiated codec in one fragmentation; \
                non-trivial = the input got past the framing header checks (BGP: a complete frame with 19 <= L <= max reached the body parser; \
                RTR: a complete 8-byte header was examined; BFD: len >= 24 and length field == len); distinct by hash of (input bytes, codec / decoder), \
                recorded for a hash-selected subsample (1/4 at quick, 1/64 at thorough, all under Miri) so distinct_nontrivial is a lower bound; \
                counters nontrivial:bgp / nontrivial:rtr / nontrivial:bfd count every non-trivial evaluation";
    let mut rep = Report::new("C03", &params);
    rep.extra("rule", Json::s(rule));
    rep.extra("profile", Json::s(profile()));

    let verbose = params.flag("verbose");
    let t0 = std::time::Instant::now();
    let lap = |what: &str| {
        if verbose {
            eprintln!("[C03] {:>8.1}s {}", t0.elapsed().as_secs_f64(), what);
        }
    };
    let corpus = seeds::build_corpus();
    lap("corpus built");
    let layouts: Vec<Layout> = corpus
        .seeds
        .iter()
        .map(|s| if s.proto == Proto::Bgp { mutate::dissect(&s.bytes) } else { Layout::default() })
        .collect();
    lap("layouts");
    let codecs: Vec<PeerCodec> = corpus.specs.iter().map(|s| s.build()).collect();
    lap("codecs");
    let shard_idx = params.shard.rsplit('-').next().and_then(|s| s.parse::<u64>().ok()).unwrap_or(0);
    let nshards = params.get_u64("nshards", 1).max(1);
    rep.max("codecs", corpus.specs.len() as u64);
    rep.max("seeds", corpus.seeds.len() as u64);
    let mut ctx = Ctx {
        rep,
        corpus,
        layouts,
        codecs,
        agg: BTreeMap::new(),
        rng: Rng::new(params.seed ^ 0xC03_C03),
        nshards,
        shard_idx: shard_idx % nshards,
        item: 0,
        nt_mod: if params.scale < 0.01 { 1 } else if params.thorough() { 64 } else { 4 },
    };

    // watchdog: a decoder call that does not return is a harness-level timeout
    // (inconclusive, never a violation); print what was running and leave.
    #[cfg(not(miri))]
    {
        let limit = params.get_u64("watchdog_s", 60);
        std::thread::spawn(move || {
            let mut last = HEART.load(Ordering::Relaxed);
            let mut idle = 0u64;
            loop {
                std::thread::sleep(std::time::Duration::from_secs(1));
                let now = HEART.load(Ordering::Relaxed);
                if now == last {
                    idle += 1;
                } else {
                    idle = 0;
                    last = now;
                }
                if idle >= limit {
                    let cur = CURRENT.lock().map(|g| hex(&g)).unwrap_or_default();
                    eprintln!("[C03] watchdog: no decoder call returned for {} s (inconclusive, not a verdict); current input (first 512 bytes) = {}", limit, cur);
                    std::process::exit(2);
                }
            }
        });
    }

    // ---- single-input modes
    if let Some(path) = params.replay.clone() {
        let text = std::fs::read_to_string(&path).unwrap_or_default();
        let dec = extract_str(&text, "decoder").unwrap_or_else(|| "bgp".into());
        let codec = extract_str(&text, "codec_name").unwrap_or_else(|| "all".into());
        let input = unhex(&extract_str(&text, "input_hex").unwrap_or_default());
        let cuts = parse_cuts(&extract_str(&text, "cuts").unwrap_or_default());
        replay(&mut ctx, &dec, &codec, &input, &cuts);
        finalize(&mut ctx);
        std::process::exit(ctx.rep.finish());
    }
    if let Some(h) = params.get("hex").map(|s| s.to_string()) {
        let dec = params.get("decoder").unwrap_or("bgp").to_string();
        let codec = params.get("codec").unwrap_or("all").to_string();
        let cuts = parse_cuts(params.get("cuts").unwrap_or(""));
        replay(&mut ctx, &dec, &codec, &unhex(&h), &cuts);
        finalize(&mut ctx);
        std::process::exit(ctx.rep.finish());
    }

    let part_s = params.get("part").unwrap_or("all").to_string();
    let has = |p: &str| part_s.split(',').any(|x| x == p || x == "all" || (x == "bgp" && p.starts_with("bgp-")));
    let tiny = params.scale < 0.01;
    let thorough = params.thorough();
    phase_baseline(&mut ctx, tiny);
    lap("baseline");
    // tiny scale (Miri, ~1 s per evaluation): explicit small counts
    let tiny_n = |base: f64| ((params.scale * base).ceil() as u64).max(1);
    if has("bgp-systematic") {
        // thorough (scale 1): the whole space.  quick: length fields / truncation / attribute surgery
        // complete, wide value sweeps sampled.  tiny scale: a seeded sample of indices.
        if tiny {
            phase_bgp_systematic(&mut ctx, 1.0, Some(tiny_n(4_000_000.0)));
        } else {
            let rate = if thorough { 1.0 } else { 0.1 } * params.scale.min(1.0);
            phase_bgp_systematic(&mut ctx, rate, None);
        }
    }
    if has("bgp-systematic") {
        let ppm = if tiny { ((params.scale * 10.0).min(1.0) * 1_000_000.0) as u64 } else { 1_000_000 };
        phase_bgp_grow(&mut ctx, ppm.max(1));
    }
    lap("systematic");
    if has("bgp-random") {
        let per_shard = if tiny { tiny_n(2_000_000.0) / nshards } else { params.n(200_000, 40_000_000) / nshards };
        phase_bgp_random(&mut ctx, per_shard.max(1));
    }
    lap("random");
    // RTR / BFD systematic spaces are small: visited completely unless scaled down
    let (num, den) = if params.scale >= 1.0 { (1, 1) } else { (((params.scale * 1000.0).ceil() as u64).max(1), 1000) };
    if has("rtr") {
        let n = if tiny { tiny_n(1_000_000.0) / nshards } else { params.n(40_000, 4_000_000) / nshards };
        phase_rtr(&mut ctx, num, den, n.max(1));
    }
    if has("bfd") {
        let n = if tiny { tiny_n(1_000_000.0) / nshards } else { params.n(20_000, 2_000_000) / nshards };
        phase_bfd(&mut ctx, num, den, n.max(1));
    }
    lap("rtr+bfd");
    finalize(&mut ctx);
    lap("finalize");
    if ctx.rep.evaluations < 50 && params.scale >= 1.0 {
        ctx.rep.inconclusive("fewer than 50 evaluations");
    }
    std::process::exit(ctx.rep.finish());
}
