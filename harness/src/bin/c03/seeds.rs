//! Seeds of the C03 corpus: negotiated codecs, hand-written byte templates
//! (written from the RFCs, independent of the repo encoder) and frames built
//! with the repo encoder (`PeerCodec::encode_to`, `RtrCodec::encode`,
//! `bfd::Message::encode`).
use bytes::BytesMut;
use rustybgp_packet::bgp::{
    Attribute, Capability, Family, HoldTime, Ipv4Net, Ipv6Net, Message, Nexthop, Nlri, Notification, Open, PathNlri,
    PeerCodec, Update,
};
use rustybgp_packet::{bfd, rpki};
use std::net::{IpAddr, Ipv4Addr, Ipv6Addr};
use std::sync::Arc;
use tokio_util::codec::Encoder;

/// Every `Family` constant of packet/src/bgp.rs except `EMPTY` (19 real
/// AFI/SAFI pairs; the 20th constant is the `EMPTY` placeholder, which is
/// exercised as "unknown family" through the AFI/SAFI byte sweeps).
pub const ALL_FAMILIES: [Family; 19] = [
    Family::IPV4,
    Family::IPV6,
    Family::IPV4_MC,
    Family::IPV6_MC,
    Family::IPV4_MPLS,
    Family::IPV6_MPLS,
    Family::LS,
    Family::IPV4_MUP,
    Family::IPV6_MUP,
    Family::IPV4_VPN,
    Family::IPV6_VPN,
    Family::IPV4_FLOWSPEC,
    Family::IPV6_FLOWSPEC,
    Family::IPV4_FLOWSPEC_VPN,
    Family::IPV6_FLOWSPEC_VPN,
    Family::IPV4_SRPOLICY,
    Family::IPV6_SRPOLICY,
    Family::L2VPN_EVPN,
    Family::RTC,
];

pub fn families() -> Vec<Family> {
    ALL_FAMILIES.to_vec()
}

pub fn fam_name(f: Family) -> &'static str {
    match f {
        Family::IPV4 => "ipv4",
        Family::IPV6 => "ipv6",
        Family::IPV4_MC => "ipv4-mc",
        Family::IPV6_MC => "ipv6-mc",
        Family::IPV4_MPLS => "ipv4-mpls",
        Family::IPV6_MPLS => "ipv6-mpls",
        Family::LS => "ls",
        Family::IPV4_MUP => "ipv4-mup",
        Family::IPV6_MUP => "ipv6-mup",
        Family::IPV4_VPN => "ipv4-vpn",
        Family::IPV6_VPN => "ipv6-vpn",
        Family::IPV4_FLOWSPEC => "ipv4-flowspec",
        Family::IPV6_FLOWSPEC => "ipv6-flowspec",
        Family::IPV4_FLOWSPEC_VPN => "ipv4-flowspec-vpn",
        Family::IPV6_FLOWSPEC_VPN => "ipv6-flowspec-vpn",
        Family::IPV4_SRPOLICY => "ipv4-srpolicy",
        Family::IPV6_SRPOLICY => "ipv6-srpolicy",
        Family::L2VPN_EVPN => "l2vpn-evpn",
        Family::RTC => "rtc",
        _ => "other",
    }
}

pub fn fam_counter(f: Family) -> &'static str {
    match f {
        Family::IPV4 => "decoded-nlri:ipv4",
        Family::IPV6 => "decoded-nlri:ipv6",
        Family::IPV4_MC => "decoded-nlri:ipv4-mc",
        Family::IPV6_MC => "decoded-nlri:ipv6-mc",
        Family::IPV4_MPLS => "decoded-nlri:ipv4-mpls",
        Family::IPV6_MPLS => "decoded-nlri:ipv6-mpls",
        Family::LS => "decoded-nlri:ls",
        Family::IPV4_MUP => "decoded-nlri:ipv4-mup",
        Family::IPV6_MUP => "decoded-nlri:ipv6-mup",
        Family::IPV4_VPN => "decoded-nlri:ipv4-vpn",
        Family::IPV6_VPN => "decoded-nlri:ipv6-vpn",
        Family::IPV4_FLOWSPEC => "decoded-nlri:ipv4-flowspec",
        Family::IPV6_FLOWSPEC => "decoded-nlri:ipv6-flowspec",
        Family::IPV4_FLOWSPEC_VPN => "decoded-nlri:ipv4-flowspec-vpn",
        Family::IPV6_FLOWSPEC_VPN => "decoded-nlri:ipv6-flowspec-vpn",
        Family::IPV4_SRPOLICY => "decoded-nlri:ipv4-srpolicy",
        Family::IPV6_SRPOLICY => "decoded-nlri:ipv6-srpolicy",
        Family::L2VPN_EVPN => "decoded-nlri:l2vpn-evpn",
        Family::RTC => "decoded-nlri:rtc",
        _ => "decoded-nlri:other",
    }
}

// ------------------------------------------------------------------ codecs

#[derive(Clone, Debug)]
pub struct CodecSpec {
    pub name: String,
    /// `PeerCodec::new()` as used before the OPEN exchange (no family at all)
    pub raw_new: bool,
    pub fams: Vec<Family>,
    /// families with add-path negotiated in both directions
    pub addpath: Vec<Family>,
    pub as4: bool,
    pub extmsg: bool,
    pub extnh: bool,
}

impl CodecSpec {
    fn caps(&self) -> Vec<Capability> {
        let mut v: Vec<Capability> = self.fams.iter().map(|f| Capability::MultiProtocol(*f)).collect();
        if !self.addpath.is_empty() {
            v.push(Capability::AddPath(self.addpath.iter().map(|f| (*f, 3u8)).collect()));
        }
        if self.as4 {
            v.push(Capability::FourOctetAsNumber(65001));
        }
        if self.extmsg {
            v.push(Capability::ExtendedMessage);
        }
        if self.extnh {
            v.push(Capability::ExtendedNexthop(vec![(Family::IPV4, Family::AFI_IP6)]));
        }
        v.push(Capability::RouteRefresh);
        v
    }
    /// the receiving side's codec (the decoder under test)
    pub fn build(&self) -> PeerCodec {
        if self.raw_new {
            return PeerCodec::new();
        }
        let c = self.caps();
        PeerCodec::negotiate(&c, &c)
    }
    /// max message size by the protocol (RFC 4271 / RFC 8654), not read from the codec
    pub fn max_len(&self) -> usize {
        if self.extmsg && !self.raw_new { 65535 } else { 4096 }
    }
    pub fn has(&self, f: Family) -> bool {
        !self.raw_new && self.fams.contains(&f)
    }
    pub fn ap(&self, f: Family) -> bool {
        !self.raw_new && self.addpath.contains(&f)
    }
    pub fn describe(&self) -> String {
        if self.raw_new {
            return format!("{}: PeerCodec::new() (pre-OPEN)", self.name);
        }
        format!(
            "{}: negotiate(caps,caps) families=[{}] addpath=[{}] as4={} extended_message={} extended_nexthop={}",
            self.name,
            self.fams.iter().map(|f| fam_name(*f)).collect::<Vec<_>>().join(","),
            self.addpath.iter().map(|f| fam_name(*f)).collect::<Vec<_>>().join(","),
            self.as4,
            self.extmsg,
            self.extnh
        )
    }
}

fn spec(name: &str, fams: &[Family], addpath: &[Family], as4: bool, extmsg: bool, extnh: bool) -> CodecSpec {
    CodecSpec {
        name: name.to_string(),
        raw_new: false,
        fams: fams.to_vec(),
        addpath: addpath.to_vec(),
        as4,
        extmsg,
        extnh,
    }
}

pub fn codec_specs() -> Vec<CodecSpec> {
    let all = families();
    let v4 = [Family::IPV4];
    let v46 = [Family::IPV4, Family::IPV6];
    let mut v = vec![
        CodecSpec { name: "new".into(), raw_new: true, fams: vec![], addpath: vec![], as4: true, extmsg: false, extnh: false },
        spec("v4", &v4, &[], true, false, false),
        spec("v4-as2", &v4, &[], false, false, false),
        spec("v4-ap", &v4, &v4, true, false, false),
        spec("v4-ap-as2", &v4, &v4, false, false, false),
        spec("v4-extmsg", &v4, &[], true, true, false),
        spec("v4v6", &v46, &[], true, false, false),
        spec("v4v6-ap", &v46, &v46, true, false, false),
        spec("v4v6-extnh", &v46, &[], true, false, true),
        spec("v4v6-extnh-ap", &v46, &v46, true, false, true),
        spec("all", &all, &[], true, false, false),
        spec("all-ap", &all, &all, true, false, false),
        spec("all-as2", &all, &[], false, false, false),
        spec("all-extmsg", &all, &[], true, true, false),
        spec("all-ap-as2-extmsg", &all, &all, false, true, false),
        spec("all-extnh", &all, &[], true, false, true),
        spec("all-ap-extnh-extmsg", &all, &all, true, true, true),
    ];
    for f in all.iter().filter(|f| **f != Family::IPV4) {
        v.push(spec(&format!("v4+{}", fam_name(*f)), &[Family::IPV4, *f], &[], true, false, false));
        v.push(spec(&format!("v4+{}-ap", fam_name(*f)), &[Family::IPV4, *f], &[*f], true, false, false));
    }
    v
}

// ------------------------------------------------------------------ seeds

#[derive(Clone, Copy, Debug, PartialEq, Eq)]
pub enum Proto {
    Bgp,
    Rtr,
    Bfd,
}

#[derive(Clone, Debug)]
pub struct Seed {
    pub name: String,
    pub proto: Proto,
    pub bytes: Vec<u8>,
    pub family: Option<Family>,
    /// index into codec_specs() of a codec under which this frame is well-formed
    pub home: usize,
    pub from_encoder: bool,
    pub kind: &'static str,
}

pub fn hx(s: &str) -> Vec<u8> {
    let d: Vec<u8> = s.bytes().filter(|c| c.is_ascii_hexdigit()).collect();
    assert!(d.len() % 2 == 0, "odd hex template: {}", s);
    d.chunks(2)
        .map(|p| {
            let h = (p[0] as char).to_digit(16).unwrap() as u8;
            let l = (p[1] as char).to_digit(16).unwrap() as u8;
            (h << 4) | l
        })
        .collect()
}

const RD0: &str = "0000fde800000001"; // type 0  65000:1
const RD1: &str = "0001c00002010002"; // type 1  192.0.2.1:2
const RD2: &str = "0002000100000003"; // type 2  65536:3
const V6A: &str = "20010db8000100020000000000000001";
const ESI0: &str = "00000000000000000000";

/// Hand-written NLRI templates (reach form) per family.
pub fn nlri_templates(f: Family) -> Vec<Vec<u8>> {
    let t: Vec<String> = match f {
        Family::IPV4 | Family::IPV4_MC => vec!["180a0102".into(), "20c0000201".into(), "00".into(), "11ac1080".into()],
        Family::IPV6 | Family::IPV6_MC => {
            vec!["4020010db800010002".into(), format!("80{}", V6A), "00".into(), "3020010db80001".into()]
        }
        // RFC 8277: bits = 24*labels + prefix bits ; label 100 BoS = 0x000641
        Family::IPV4_MPLS => vec!["30 000641 0a0102".into(), "48 000640 000c81 0a0102".into(), "38 000031 c0000201".into()],
        Family::IPV6_MPLS => vec!["58 000641 20010db800010002".into(), format!("98 000641 {}", V6A)],
        // RFC 4364: labels + RD(64) + prefix
        Family::IPV4_VPN => vec![
            format!("70 000641 {} 0a0102", RD0),
            format!("88 000640 000c81 {} 0a0102", RD0),
            format!("78 000641 {} c0000201", RD1),
        ],
        Family::IPV6_VPN => vec![format!("98 000641 {} 20010db800010002", RD0), format!("d8 000641 {} {}", RD2, V6A)],
        // RFC 8955: len, then type/value components
        Family::IPV4_FLOWSPEC => {
            let mut big = vec![0xf0u8, 0xf1, 0x04];
            for _ in 0..119 {
                big.extend_from_slice(&[0x01, 0x50]);
            }
            big.extend_from_slice(&[0x81, 0x50]);
            vec![
                "0c 01180a0102 038106 05911f90".into(),
                "05 01180a0102".into(),
                "0e 0120c0000201 02180a0102 098102".into(),
                crate::hexs(&big),
            ]
        }
        Family::IPV6_FLOWSPEC => vec!["0e 01400020010db800010002 038106".into(), "0e 01400020010db800010002 0d8105".into()],
        Family::IPV4_FLOWSPEC_VPN => vec![format!("14 {} 01180a0102 038106 05911f90", RD0)],
        Family::IPV6_FLOWSPEC_VPN => vec![format!("16 {} 01400020010db800010002 038106", RD0)],
        // RFC 9552: type(2) len(2) proto(1) identifier(8) descriptors
        Family::LS => {
            let local = "0100 0012 0200 0004 0000fde8 0203 0006 000000000001";
            let remote = "0101 0012 0200 0004 0000fde8 0203 0006 000000000002";
            vec![
                "0001 0027 02 0000000000000000 0100 001a 0200 0004 0000fde8 0201 0004 00000000 0203 0006 000000000001".into(),
                format!("0002 0045 02 0000000000000000 {} {} 0103 0004 0a000001 0104 0004 0a000002", local, remote),
                format!("0003 0027 03 0000000000000001 {} 0109 0004 180a0102", local),
                format!("0006 0037 02 0000000000000000 {} 0206 0014 00000000 {}", local, V6A),
            ]
        }
        // RFC 9830: len bits, distinguisher, color, endpoint
        Family::IPV4_SRPOLICY => vec!["60 00000001 00000064 0a000001".into()],
        Family::IPV6_SRPOLICY => vec![format!("c0 00000001 00000064 {}", V6A)],
        // RFC 7432 / 9136: route type, length, body
        Family::L2VPN_EVPN => vec![
            format!("01 19 {} {} 00000000 000064", RD0, ESI0),
            format!("02 21 {} {} 00000000 30 001122334455 00 000064", RD0, ESI0),
            format!("02 25 {} {} 0000000a 30 001122334455 20 c0000201 000064", RD0, ESI0),
            format!("02 34 {} {} 00000000 30 001122334455 80 {} 000064 0000c8", RD1, ESI0, V6A),
            format!("03 11 {} 00000000 20 0a000001", RD0),
            format!("04 17 {} {} 20 0a000001", RD0, ESI0),
            format!("05 22 {} {} 00000000 18 0a010200 00000000 000064", RD0, ESI0),
            format!("05 3a {} {} 00000000 40 {} {} 000064", RD0, ESI0, V6A, V6A),
        ],
        // RFC 4684
        Family::RTC => vec!["00".into(), "20 0000fde8".into(), "60 0000fde8 0002fde800000064".into()],
        // draft-ietf-bess-mup-safi: arch(1) route type(2) len(1) body
        Family::IPV4_MUP => vec![
            format!("01 0001 0c {} 18 0a0102", RD0),
            format!("01 0002 0c {} 0a000001", RD0),
            format!("01 0003 18 {} 20 c0000201 00003039 09 20 0a000001 00", RD0),
            format!("01 0004 11 {} 40 0a000001 00003039", RD0),
        ],
        Family::IPV6_MUP => vec![
            format!("01 0001 11 {} 40 20010db800010002", RD0),
            format!("01 0002 18 {} {}", RD0, V6A),
            format!("01 0003 30 {} 80 {} 00003039 09 80 {} 00", RD0, V6A, V6A),
            format!("01 0004 1d {} a0 {} 00003039", RD0, V6A),
        ],
        _ => vec![],
    };
    t.iter().map(|s| hx(s)).collect()
}

/// NLRI templates for the withdraw form (differs for labeled unicast only).
pub fn nlri_unreach_templates(f: Family) -> Vec<Vec<u8>> {
    match f {
        Family::IPV4_MPLS => vec![hx("30 800000 0a0102")],
        Family::IPV6_MPLS => vec![hx("58 800000 20010db800010002")],
        _ => {
            let mut v = nlri_templates(f);
            v.truncate(2);
            v
        }
    }
}

/// MP_REACH next hop encodings a peer may legitimately send for the family.
pub fn nexthop_templates(f: Family) -> Vec<Vec<u8>> {
    let v4 = hx("c0000201");
    let v6 = hx(V6A);
    let mut v6ll = v6.clone();
    v6ll.extend_from_slice(&hx("fe800000000000000000000000000001"));
    match f {
        Family::IPV4_FLOWSPEC | Family::IPV6_FLOWSPEC | Family::IPV4_FLOWSPEC_VPN | Family::IPV6_FLOWSPEC_VPN => {
            vec![vec![]]
        }
        Family::IPV4_VPN => {
            let mut a = vec![0u8; 8];
            a.extend_from_slice(&v4);
            vec![a]
        }
        Family::IPV6_VPN => {
            let mut a = vec![0u8; 8];
            a.extend_from_slice(&v6);
            vec![a]
        }
        Family::IPV4 => vec![v6.clone(), v6ll], // only sent via MP_REACH with RFC 8950
        Family::IPV6 | Family::IPV6_MC | Family::IPV6_MPLS | Family::IPV6_MUP | Family::IPV6_SRPOLICY => vec![v6, v6ll],
        _ => vec![v4, v6],
    }
}

pub fn bgp_frame(t: u8, body: &[u8]) -> Vec<u8> {
    let mut v = vec![0xffu8; 16];
    let len = (19 + body.len()).min(65535) as u16;
    v.extend_from_slice(&len.to_be_bytes());
    v.push(t);
    v.extend_from_slice(body);
    v
}

pub fn attr_bytes(flags: u8, code: u8, val: &[u8]) -> Vec<u8> {
    let mut v = Vec::new();
    if val.len() > 255 || flags & 0x10 != 0 {
        v.push(flags | 0x10);
        v.push(code);
        v.extend_from_slice(&(val.len() as u16).to_be_bytes());
    } else {
        v.push(flags);
        v.push(code);
        v.push(val.len() as u8);
    }
    v.extend_from_slice(val);
    v
}

pub fn update_frame(withdrawn: &[u8], attrs: &[u8], nlri: &[u8]) -> Vec<u8> {
    let mut b = Vec::new();
    b.extend_from_slice(&(withdrawn.len() as u16).to_be_bytes());
    b.extend_from_slice(withdrawn);
    b.extend_from_slice(&(attrs.len() as u16).to_be_bytes());
    b.extend_from_slice(attrs);
    b.extend_from_slice(nlri);
    bgp_frame(2, &b)
}

pub fn mp_reach(f: Family, nh: &[u8], nlri: &[u8]) -> Vec<u8> {
    let mut v = Vec::new();
    v.extend_from_slice(&f.afi().to_be_bytes());
    v.push(f.safi());
    v.push(nh.len() as u8);
    v.extend_from_slice(nh);
    v.push(0);
    v.extend_from_slice(nlri);
    attr_bytes(0x80, 14, &v)
}

pub fn mp_unreach(f: Family, nlri: &[u8]) -> Vec<u8> {
    let mut v = Vec::new();
    v.extend_from_slice(&f.afi().to_be_bytes());
    v.push(f.safi());
    v.extend_from_slice(nlri);
    attr_bytes(0x80, 15, &v)
}

fn with_path_ids(items: &[Vec<u8>], addpath: bool) -> Vec<u8> {
    let mut v = Vec::new();
    for (i, n) in items.iter().enumerate() {
        if addpath {
            v.extend_from_slice(&(i as u32 + 1).to_be_bytes());
        }
        v.extend_from_slice(n);
    }
    v
}

/// Optional attributes, hand-written.  `as4` selects the AS_PATH/AGGREGATOR width.
pub fn attr_templates(as4: bool) -> Vec<(&'static str, Vec<u8>)> {
    let mut v: Vec<(&'static str, Vec<u8>)> = Vec::new();
    v.push(("med", hx("80 04 04 00000064")));
    v.push(("local-pref", hx("40 05 04 000000c8")));
    v.push(("atomic-aggregate", hx("40 06 00")));
    if as4 {
        v.push(("aggregator", hx("c0 07 08 0000fde9 c0000201")));
    } else {
        v.push(("aggregator", hx("c0 07 06 5ba0 c0000201")));
        v.push(("as4-path", hx("c0 11 0e 02 03 0000fde9 0000fdea 00010000")));
        v.push(("as4-aggregator", hx("c0 12 08 00010000 c0000201")));
    }
    v.push(("community", hx("c0 08 08 fde90064 ffffff01")));
    v.push(("originator-id", hx("80 09 04 c0000201")));
    v.push(("cluster-list", hx("80 0a 08 00000001 00000002")));
    v.push(("ext-community", hx("c0 10 10 0002fde900000064 0600000000000005")));
    v.push(("aigp", hx("80 1a 0b 01 000b 0000000000000064")));
    v.push(("large-community", hx("c0 20 0c 0000fde9 00000001 00000002")));
    // RFC 9252 SRv6 L3 service TLV with SID information + SID structure
    v.push((
        "prefix-sid",
        attr_bytes(
            0xc0,
            40,
            &hx(&format!("05 0022 00 01 001e 00 {} 00 0013 00 01 0006 20 10 10 00 10 40", V6A)),
        ),
    ));
    // RFC 9552 attribute: node name, SR capabilities (range), IGP metric, Adj-SID, Prefix-SID, End.X SID
    v.push((
        "ls-attr",
        attr_bytes(
            0x80,
            29,
            &hx(&format!(
                "0402 0002 7231  040a 0013 8000 000064 01 03 00fa00 001f40 01 04 00003e80  0447 0003 00000a  044b 0007 30 00 0000 000641 \
                 0486 0008 00 00 0000 00000064  0452 001e 0005 00 00 00 00 {} 04e4 0004 20101000",
                V6A
            )),
        ),
    ));
    // RFC 9012 / 9830: SR policy tunnel with preference, binding SID, segment list
    v.push((
        "tunnel-encap",
        attr_bytes(
            0xc0,
            23,
            &hx("000f 0025 0c06 0000 00000064  0d06 0000 00064000  80 0011 00 0906 0000 00000001 0106 0000 00064000  0f02 0100"),
        ),
    ));
    v.push(("unknown-opt-trans", hx("c0 63 03 010203")));
    v.push(("unknown-opt-nontrans", hx("80 64 02 0102")));
    v.push(("community-extlen", hx("d0 08 0004 fde90064")));
    v
}

pub fn base_attrs(as4: bool) -> Vec<u8> {
    let mut v = hx("40 01 01 00");
    if as4 {
        v.extend_from_slice(&hx("40 02 0e 02 03 0000fde9 0000fdea 00010000"));
    } else {
        v.extend_from_slice(&hx("40 02 08 02 03 fde9 fdea 5ba0"));
    }
    v
}

pub struct Corpus {
    pub specs: Vec<CodecSpec>,
    pub seeds: Vec<Seed>,
}

fn idx(specs: &[CodecSpec], name: &str) -> usize {
    specs.iter().position(|s| s.name == name).unwrap_or_else(|| panic!("no codec {}", name))
}

fn home_for(specs: &[CodecSpec], f: Family, ap: bool) -> usize {
    if f == Family::IPV4 {
        return idx(specs, if ap { "v4-ap" } else { "v4" });
    }
    idx(specs, &format!("v4+{}{}", fam_name(f), if ap { "-ap" } else { "" }))
}

pub fn template_bgp_seeds(specs: &[CodecSpec], out: &mut Vec<Seed>) {
    let fams = families();
    let opt = attr_templates(true);
    let mut rot = 0usize;
    // ---- per family: MP_REACH / MP_UNREACH / EOR
    for f in fams.iter().copied() {
        let nl = nlri_templates(f);
        let nhs = nexthop_templates(f);
        for ap in [false, true] {
            if f == Family::IPV4 {
                continue; // traditional encoding below; MP form under extnh below
            }
            let home = home_for(specs, f, ap);
            for (i, n) in nl.iter().enumerate() {
                let mut attrs = base_attrs(true);
                // rotate two optional attributes through the seeds so that each appears often
                for _ in 0..2 {
                    attrs.extend_from_slice(&opt[rot % opt.len()].1);
                    rot += 1;
                }
                let nh = &nhs[i % nhs.len()];
                attrs.extend_from_slice(&mp_reach(f, nh, &with_path_ids(std::slice::from_ref(n), ap)));
                out.push(Seed {
                    name: format!("tmpl/update-reach/{}/{}{}", fam_name(f), i, if ap { "/ap" } else { "" }),
                    proto: Proto::Bgp,
                    bytes: update_frame(&[], &attrs, &[]),
                    family: Some(f),
                    home,
                    from_encoder: false,
                    kind: "update-reach",
                });
            }
            // all templates in one attribute
            let mut attrs = base_attrs(true);
            attrs.extend_from_slice(&hx("40 05 04 00000064"));
            attrs.extend_from_slice(&mp_reach(f, &nhs[0], &with_path_ids(&nl, ap)));
            out.push(Seed {
                name: format!("tmpl/update-reach/{}/multi{}", fam_name(f), if ap { "/ap" } else { "" }),
                proto: Proto::Bgp,
                bytes: update_frame(&[], &attrs, &[]),
                family: Some(f),
                home,
                from_encoder: false,
                kind: "update-reach",
            });
            let un = nlri_unreach_templates(f);
            out.push(Seed {
                name: format!("tmpl/update-unreach/{}{}", fam_name(f), if ap { "/ap" } else { "" }),
                proto: Proto::Bgp,
                bytes: update_frame(&[], &mp_unreach(f, &with_path_ids(&un, ap)), &[]),
                family: Some(f),
                home,
                from_encoder: false,
                kind: "update-unreach",
            });
        }
        if f != Family::IPV4 {
            out.push(Seed {
                name: format!("tmpl/eor/{}", fam_name(f)),
                proto: Proto::Bgp,
                bytes: update_frame(&[], &mp_unreach(f, &[]), &[]),
                family: Some(f),
                home: home_for(specs, f, false),
                from_encoder: false,
                kind: "eor",
            });
        }
    }
    // ---- IPv4 traditional encoding
    let nl4 = nlri_templates(Family::IPV4);
    for ap in [false, true] {
        for as4 in [true, false] {
            let home = idx(specs, match (ap, as4) {
                (false, true) => "v4",
                (false, false) => "v4-as2",
                (true, true) => "v4-ap",
                (true, false) => "v4-ap-as2",
            });
            let tag = format!("{}{}", if ap { "/ap" } else { "" }, if as4 { "" } else { "/as2" });
            let mut attrs = base_attrs(as4);
            attrs.extend_from_slice(&hx("40 03 04 c0000201"));
            out.push(Seed {
                name: format!("tmpl/update-reach/ipv4/plain{}", tag),
                proto: Proto::Bgp,
                bytes: update_frame(&[], &attrs, &with_path_ids(&nl4, ap)),
                family: Some(Family::IPV4),
                home,
                from_encoder: false,
                kind: "update-reach",
            });
            out.push(Seed {
                name: format!("tmpl/update-unreach/ipv4{}", tag),
                proto: Proto::Bgp,
                bytes: update_frame(&with_path_ids(&nl4[..2], ap), &[], &[]),
                family: Some(Family::IPV4),
                home,
                from_encoder: false,
                kind: "update-unreach",
            });
            // every optional attribute at once + withdrawn + announced
            let mut attrs = base_attrs(as4);
            attrs.extend_from_slice(&hx("40 03 04 c0000201"));
            for (_, a) in attr_templates(as4) {
                attrs.extend_from_slice(&a);
            }
            out.push(Seed {
                name: format!("tmpl/update-reach/ipv4/all-attrs{}", tag),
                proto: Proto::Bgp,
                bytes: update_frame(&with_path_ids(&nl4[..1], ap), &attrs, &with_path_ids(&nl4[1..3], ap)),
                family: Some(Family::IPV4),
                home,
                from_encoder: false,
                kind: "update-reach",
            });
        }
    }
    out.push(Seed {
        name: "tmpl/eor/ipv4".into(),
        proto: Proto::Bgp,
        bytes: update_frame(&[], &[], &[]),
        family: Some(Family::IPV4),
        home: idx(specs, "v4"),
        from_encoder: false,
        kind: "eor",
    });
    // ---- one UPDATE carrying IPv4 traditional + MP_REACH(ipv6) + MP_UNREACH(ipv6)
    {
        let nl6 = nlri_templates(Family::IPV6);
        let mut attrs = base_attrs(true);
        attrs.extend_from_slice(&hx("40 03 04 c0000201"));
        attrs.extend_from_slice(&mp_reach(Family::IPV6, &hx(V6A), &with_path_ids(&nl6[..2], false)));
        attrs.extend_from_slice(&mp_unreach(Family::IPV6, &with_path_ids(&nl6[3..4], false)));
        out.push(Seed {
            name: "tmpl/update-mixed/ipv4+ipv6".into(),
            proto: Proto::Bgp,
            bytes: update_frame(&nl4[0], &attrs, &with_path_ids(&nl4[1..2], false)),
            family: Some(Family::IPV6),
            home: idx(specs, "v4v6"),
            from_encoder: false,
            kind: "update-reach",
        });
    }
    // ---- IPv4 via MP_REACH with RFC 8950 extended next hop
    for ap in [false, true] {
        let nhs = nexthop_templates(Family::IPV4);
        let mut attrs = base_attrs(true);
        attrs.extend_from_slice(&mp_reach(Family::IPV4, &nhs[0], &with_path_ids(&nl4, ap)));
        out.push(Seed {
            name: format!("tmpl/update-reach/ipv4/extnh{}", if ap { "/ap" } else { "" }),
            proto: Proto::Bgp,
            bytes: update_frame(&[], &attrs, &[]),
            family: Some(Family::IPV4),
            home: idx(specs, if ap { "v4v6-extnh-ap" } else { "v4v6-extnh" }),
            from_encoder: false,
            kind: "update-reach",
        });
    }
    // ---- a long AS_PATH with extended length, and a large UPDATE close to 4096
    if !cfg!(miri) {
        let mut path = Vec::new();
        for s in 0..2u32 {
            path.push(2u8);
            path.push(255);
            for i in 0..255u32 {
                path.extend_from_slice(&(64512 + s * 255 + i).to_be_bytes());
            }
        }
        let mut attrs = hx("40 01 01 00");
        attrs.extend_from_slice(&attr_bytes(0x40, 2, &path));
        attrs.extend_from_slice(&hx("40 03 04 c0000201"));
        out.push(Seed {
            name: "tmpl/update-reach/ipv4/long-as-path".into(),
            proto: Proto::Bgp,
            bytes: update_frame(&[], &attrs, &nl4[0]),
            family: Some(Family::IPV4),
            home: idx(specs, "v4"),
            from_encoder: false,
            kind: "update-reach",
        });
        let mut nl = Vec::new();
        let mut attrs = base_attrs(true);
        attrs.extend_from_slice(&hx("40 03 04 c0000201"));
        let mut i = 0u32;
        while 23 + attrs.len() + nl.len() + 4 <= 4096 {
            nl.extend_from_slice(&[24, 10, (i >> 8) as u8, i as u8]);
            i += 1;
        }
        out.push(Seed {
            name: "tmpl/update-reach/ipv4/max-4096".into(),
            proto: Proto::Bgp,
            bytes: update_frame(&[], &attrs, &nl),
            family: Some(Family::IPV4),
            home: idx(specs, "v4"),
            from_encoder: false,
            kind: "update-reach",
        });
    }
    // ---- OPEN
    {
        let all = idx(specs, "all");
        // version 4, AS 23456, hold 90, id 192.0.2.1; capabilities: MP ipv4, MP ipv6, RR, 4-octet AS,
        // add-path, extended message, extended next hop, GR, LLGR, enhanced RR, FQDN, unknown
        let caps = hx("01 04 00010001  01 04 00020001  02 00  41 04 00010000  45 08 00010103 00020103  06 00 \
             05 06 00010001 0002  40 06 4078 000101 80  47 07 000101 80 000e10  46 00  49 06 02 7231 02 6c6f  f0 03 010203");
        let mut body = hx("04 5ba0 005a c0000201");
        body.push(caps.len() as u8 + 2);
        body.push(2);
        body.push(caps.len() as u8);
        body.extend_from_slice(&caps);
        out.push(Seed { name: "tmpl/open/many-caps".into(), proto: Proto::Bgp, bytes: bgp_frame(1, &body), family: None, home: all, from_encoder: false, kind: "open" });
        // one capability per optional parameter (also legal)
        let body2 = hx("04 fde9 0000 0a000001 0c  02 06 01 04 00010001  02 02 02 00  02 00");
        out.push(Seed { name: "tmpl/open/param-per-cap".into(), proto: Proto::Bgp, bytes: bgp_frame(1, &body2), family: None, home: all, from_encoder: false, kind: "open" });
        out.push(Seed { name: "tmpl/open/no-params".into(), proto: Proto::Bgp, bytes: bgp_frame(1, &hx("04 fde9 00b4 0a000001 00")), family: None, home: all, from_encoder: false, kind: "open" });
        // ---- NOTIFICATION / KEEPALIVE / ROUTE-REFRESH
        out.push(Seed { name: "tmpl/notification/cease-admin-shutdown".into(), proto: Proto::Bgp, bytes: bgp_frame(3, &hx("06 02 04 62796521")), family: None, home: all, from_encoder: false, kind: "notification" });
        out.push(Seed { name: "tmpl/notification/hold-timer".into(), proto: Proto::Bgp, bytes: bgp_frame(3, &hx("04 00")), family: None, home: all, from_encoder: false, kind: "notification" });
        out.push(Seed { name: "tmpl/keepalive".into(), proto: Proto::Bgp, bytes: bgp_frame(4, &[]), family: None, home: all, from_encoder: false, kind: "keepalive" });
        out.push(Seed { name: "tmpl/route-refresh/ipv4".into(), proto: Proto::Bgp, bytes: bgp_frame(5, &hx("0001 00 01")), family: None, home: all, from_encoder: false, kind: "route-refresh" });
        out.push(Seed { name: "tmpl/route-refresh/evpn".into(), proto: Proto::Bgp, bytes: bgp_frame(5, &hx("0019 00 46")), family: None, home: all, from_encoder: false, kind: "route-refresh" });
    }
}

// ------------------------------------------------------------------ encoder-built seeds

fn rd0() -> rustybgp_packet::rd::RouteDistinguisher {
    rustybgp_packet::rd::RouteDistinguisher::TwoOctetAs { admin: 65000, assigned: 1 }
}

/// One directly constructed NLRI value per family (fields are public).
pub fn nlri_values(f: Family) -> Vec<Nlri> {
    use rustybgp_packet::mpls::{MplsLabel, MplsLabelStack};
    use rustybgp_packet::{evpn, flowspec, labeled, ls, mup, rtc, sr_policy, vpn};
    let v4 = Ipv4Net { addr: Ipv4Addr::new(10, 1, 2, 0), mask: 24 };
    let v6 = Ipv6Net { addr: "2001:db8:1:2::".parse().unwrap(), mask: 64 };
    let a4: IpAddr = IpAddr::V4(Ipv4Addr::new(10, 0, 0, 1));
    let a6: IpAddr = IpAddr::V6("2001:db8::1".parse::<Ipv6Addr>().unwrap());
    let stack = || MplsLabelStack::new(vec![MplsLabel::new(100)]);
    let stack2 = || MplsLabelStack::new(vec![MplsLabel::new(100), MplsLabel::new(200)]);
    let ops = |v: u64| vec![flowspec::Op { bits: flowspec::Op::END | flowspec::Op::EQ, value: v }];
    let node = || ls::NodeDescriptor { asn: Some(65000), igp_router_id: Some(vec![0, 0, 0, 0, 0, 1]), ..Default::default() };
    match f {
        Family::IPV4 | Family::IPV4_MC => vec![Nlri::V4(v4), Nlri::V4(Ipv4Net { addr: Ipv4Addr::new(192, 0, 2, 1), mask: 32 })],
        Family::IPV6 | Family::IPV6_MC => vec![Nlri::V6(v6), Nlri::V6(Ipv6Net { addr: "2001:db8::1".parse().unwrap(), mask: 128 })],
        Family::IPV4_MPLS => vec![
            Nlri::LabeledV4(labeled::LabeledV4Nlri { labels: stack(), prefix: v4 }),
            Nlri::LabeledV4(labeled::LabeledV4Nlri { labels: stack2(), prefix: v4 }),
        ],
        Family::IPV6_MPLS => vec![Nlri::LabeledV6(labeled::LabeledV6Nlri { labels: stack(), prefix: v6 })],
        Family::IPV4_VPN => vec![
            Nlri::VpnV4(vpn::VpnV4Nlri { labels: stack(), rd: rd0(), prefix: v4 }),
            Nlri::VpnV4(vpn::VpnV4Nlri { labels: stack2(), rd: rd0(), prefix: v4 }),
        ],
        Family::IPV6_VPN => vec![Nlri::VpnV6(vpn::VpnV6Nlri { labels: stack(), rd: rd0(), prefix: v6 })],
        Family::IPV4_FLOWSPEC => vec![Nlri::FlowspecV4(flowspec::FlowspecV4Nlri {
            components: vec![
                flowspec::FlowspecV4Component::DstPrefix(v4),
                flowspec::FlowspecV4Component::Protocol(ops(6)),
                flowspec::FlowspecV4Component::DstPort(ops(8080)),
            ],
        })],
        Family::IPV6_FLOWSPEC => vec![Nlri::FlowspecV6(flowspec::FlowspecV6Nlri {
            components: vec![
                flowspec::FlowspecV6Component::DstPrefix { prefix: v6, offset: 0 },
                flowspec::FlowspecV6Component::NextHeader(ops(6)),
            ],
        })],
        Family::IPV4_FLOWSPEC_VPN => vec![Nlri::FlowspecVpnV4(flowspec::FlowspecVpnV4Nlri {
            rd: rd0(),
            components: vec![flowspec::FlowspecV4Component::DstPrefix(v4), flowspec::FlowspecV4Component::Protocol(ops(17))],
        })],
        Family::IPV6_FLOWSPEC_VPN => vec![Nlri::FlowspecVpnV6(flowspec::FlowspecVpnV6Nlri {
            rd: rd0(),
            components: vec![flowspec::FlowspecV6Component::DstPrefix { prefix: v6, offset: 0 }],
        })],
        Family::LS => vec![
            Nlri::Ls(ls::BgpLsNlri::Node(ls::BgpLsNodeNlri { protocol_id: ls::PROTOCOL_ISIS_L2, identifier: 0, local_node: node() })),
            Nlri::Ls(ls::BgpLsNlri::Link(ls::BgpLsLinkNlri {
                protocol_id: ls::PROTOCOL_ISIS_L2,
                identifier: 0,
                local_node: node(),
                remote_node: node(),
                link_desc: vec![ls::LinkDescTlv::Ipv4InterfaceAddr([10, 0, 0, 1])],
            })),
            Nlri::Ls(ls::BgpLsNlri::PrefixV4(ls::BgpLsPrefixNlri {
                protocol_id: ls::PROTOCOL_OSPF_V2,
                identifier: 1,
                local_node: node(),
                prefix_desc: vec![ls::PrefixDescTlv::IpReachability { prefix_len: 24, addr: vec![10, 1, 2] }],
            })),
        ],
        Family::IPV4_SRPOLICY => vec![Nlri::SrPolicy(sr_policy::SrPolicyNlri { distinguisher: 1, color: 100, endpoint: a4 })],
        Family::IPV6_SRPOLICY => vec![Nlri::SrPolicy(sr_policy::SrPolicyNlri { distinguisher: 1, color: 100, endpoint: a6 })],
        Family::L2VPN_EVPN => vec![
            Nlri::Evpn(evpn::EvpnNlri::MacIpAdvertisement(evpn::MacIpAdvertisement {
                rd: rd0(),
                esi: evpn::Esi::ZERO,
                etag: 0,
                mac: [0, 0x11, 0x22, 0x33, 0x44, 0x55],
                ip: Some(a4),
                label1: 100,
                label2: None,
            })),
            Nlri::Evpn(evpn::EvpnNlri::InclusiveMulticastEthernetTag(evpn::InclusiveMulticastEthernetTag { rd: rd0(), etag: 0, originating_router_ip: a4 })),
            Nlri::Evpn(evpn::EvpnNlri::EthernetIpPrefix(evpn::EthernetIpPrefixRoute {
                rd: rd0(),
                esi: evpn::Esi::ZERO,
                etag: 0,
                ip_prefix: IpAddr::V4(Ipv4Addr::new(10, 1, 2, 0)),
                prefix_len: 24,
                gateway_ip: IpAddr::V4(Ipv4Addr::UNSPECIFIED),
                label: 100,
            })),
            Nlri::Evpn(evpn::EvpnNlri::EthernetAutoDiscovery(evpn::EthernetAutoDiscoveryRoute { rd: rd0(), esi: evpn::Esi::ZERO, etag: 0, label: 100 })),
            Nlri::Evpn(evpn::EvpnNlri::EthernetSegment(evpn::EthernetSegmentRoute { rd: rd0(), esi: evpn::Esi::ZERO, originating_router_ip: a6 })),
        ],
        Family::RTC => vec![
            Nlri::Rtc(rtc::RtcNlri::wildcard()),
            Nlri::Rtc(rtc::RtcNlri { match_type: rtc::MatchType::ExactMatch { origin_as: 65000, route_target: [0, 2, 0xfd, 0xe8, 0, 0, 0, 100] } }),
        ],
        Family::IPV4_MUP => vec![
            Nlri::Mup(mup::MupNlri::InterworkSegmentDiscovery(mup::MupInterworkSegmentDiscoveryRoute { rd: rd0(), prefix_addr: IpAddr::V4(Ipv4Addr::new(10, 1, 2, 0)), prefix_len: 24 })),
            Nlri::Mup(mup::MupNlri::Type1SessionTransformed(mup::MupType1SessionTransformedRoute {
                rd: rd0(),
                prefix_addr: IpAddr::V4(Ipv4Addr::new(192, 0, 2, 1)),
                prefix_len: 32,
                teid: 12345,
                qfi: 9,
                endpoint_address: a4,
                source_address: None,
            })),
            Nlri::Mup(mup::MupNlri::Type2SessionTransformed(mup::MupType2SessionTransformedRoute { rd: rd0(), endpoint_address_length: 64, endpoint_address: a4, teid: 12345 })),
        ],
        Family::IPV6_MUP => vec![
            Nlri::Mup(mup::MupNlri::DirectSegmentDiscovery(mup::MupDirectSegmentDiscoveryRoute { rd: rd0(), address: a6 })),
            Nlri::Mup(mup::MupNlri::InterworkSegmentDiscovery(mup::MupInterworkSegmentDiscoveryRoute { rd: rd0(), prefix_addr: IpAddr::V6("2001:db8:1:2::".parse().unwrap()), prefix_len: 64 })),
        ],
        _ => vec![],
    }
}

fn nexthop_value(f: Family) -> Option<Nexthop> {
    match f {
        Family::IPV4_FLOWSPEC | Family::IPV6_FLOWSPEC | Family::IPV4_FLOWSPEC_VPN | Family::IPV6_FLOWSPEC_VPN => None,
        f if f.afi() == Family::AFI_IP6 => Some(Nexthop::V6("2001:db8::1".parse().unwrap())),
        _ => Some(Nexthop::V4(Ipv4Addr::new(192, 0, 2, 1))),
    }
}

fn attr_values() -> Vec<Attribute> {
    let mut path = vec![2u8, 3];
    for a in [65001u32, 65002, 65536] {
        path.extend_from_slice(&a.to_be_bytes());
    }
    let mut v = vec![
        Attribute::new_with_value(Attribute::ORIGIN, 0).unwrap(),
        Attribute::new_with_bin(Attribute::AS_PATH, path).unwrap(),
        Attribute::new_with_value(Attribute::MULTI_EXIT_DESC, 100).unwrap(),
        Attribute::new_with_value(Attribute::LOCAL_PREF, 200).unwrap(),
        Attribute::new_with_bin(Attribute::AGGREGATOR, hx("00010000 c0000201")).unwrap(),
        Attribute::new_with_bin(Attribute::COMMUNITY, hx("fde90064 ffffff01")).unwrap(),
        Attribute::new_with_bin(Attribute::EXTENDED_COMMUNITY, hx("0002fde900000064")).unwrap(),
        Attribute::new_with_bin(Attribute::LARGE_COMMUNITY, hx("0000fde9 00000001 00000002")).unwrap(),
    ];
    v.push(Attribute::new_opaque(99, 0xc0, vec![1, 2, 3]));
    v
}

fn encode_msgs(enc: &mut PeerCodec, msgs: &[Message]) -> Option<Vec<u8>> {
    let mut buf = BytesMut::with_capacity(4096);
    for m in msgs {
        if enc.encode_to(m, &mut buf).is_err() {
            return None;
        }
    }
    Some(buf.to_vec())
}

pub fn encoder_bgp_seeds(specs: &[CodecSpec], out: &mut Vec<Seed>) {
    let attrs = Arc::new(attr_values());
    // (home codec, family) pairs; the *peer's* codec has the same capability sets, so its
    // add-path tx equals our rx: one codec object per home serves as the encoder
    let mut plan: Vec<(usize, Family)> = Vec::new();
    for f in families() {
        plan.push((home_for(specs, f, false), f));
        plan.push((home_for(specs, f, true), f));
        if !cfg!(miri) {
            plan.push((idx(specs, "all-as2"), f));
            plan.push((idx(specs, "all-ap-as2-extmsg"), f));
        }
        if f == Family::IPV4 {
            plan.push((idx(specs, "v4v6-extnh"), f));
            plan.push((idx(specs, "v4-ap-as2"), f));
        }
    }
    plan.sort_by_key(|(h, _)| *h);
    let mut cur: Option<(usize, PeerCodec)> = None;
    for (h, f) in plan {
        let sp = &specs[h];
        if !sp.has(f) {
            continue;
        }
        if cur.as_ref().map(|c| c.0) != Some(h) {
            cur = Some((h, sp.build()));
        }
        let enc = &mut cur.as_mut().unwrap().1;
        let vals = nlri_values(f);
        let entries: Vec<PathNlri> = vals.iter().enumerate().map(|(i, n)| PathNlri { path_id: i as u32 + 1, nlri: n.clone() }).collect();
        let reach = Message::Update(Update::Reach { family: f, entries: entries.clone(), nexthop: nexthop_value(f), attr: attrs.clone() });
        let unreach = Message::Update(Update::Unreach { family: f, entries });
        let eor = Message::eor(f);
        for (kind, m) in [("update-reach", reach), ("update-unreach", unreach), ("eor", eor)] {
            if let Some(b) = encode_msgs(enc, std::slice::from_ref(&m)) {
                out.push(Seed {
                    name: format!("enc/{}/{}/{}", kind, fam_name(f), sp.name),
                    proto: Proto::Bgp,
                    bytes: b,
                    family: Some(f),
                    home: h,
                    from_encoder: true,
                    kind,
                });
            }
        }
    }
    let all = idx(specs, "all");
    let sp = &specs[all];
    let open = Message::Open(Open {
        as_number: 65536,
        holdtime: HoldTime::new(90).unwrap(),
        router_id: u32::from(Ipv4Addr::new(192, 0, 2, 1)),
        capability: vec![
            Capability::MultiProtocol(Family::IPV4),
            Capability::MultiProtocol(Family::L2VPN_EVPN),
            Capability::RouteRefresh,
            Capability::ExtendedNexthop(vec![(Family::IPV4, Family::AFI_IP6)]),
            Capability::ExtendedMessage,
            Capability::GracefulRestart { flags: 4, restart_time: 120, families: vec![(Family::IPV4, 0x80)] },
            Capability::FourOctetAsNumber(65536),
            Capability::AddPath(vec![(Family::IPV4, 3)]),
            Capability::EnhancedRouteRefresh,
            Capability::LongLivedGracefulRestart(vec![(Family::IPV4, 0x80, 3600)]),
            Capability::Fqdn { hostname: "r1".into(), domain: "lo".into() },
            Capability::Unknown { code: 240, bin: vec![1, 2, 3] },
        ],
    });
    let others: Vec<(&'static str, Message)> = vec![
        ("open", open),
        ("notification", Message::Notification(Notification::CeaseAdminShutdown)),
        ("notification", Message::Notification(Notification::BadMessageLength { data: vec![0, 18] })),
        ("keepalive", Message::Keepalive),
        ("route-refresh", Message::RouteRefresh { family: Family::IPV6 }),
    ];
    let mut enc_all = sp.build();
    for (i, (kind, m)) in others.iter().enumerate() {
        if let Some(b) = encode_msgs(&mut enc_all, std::slice::from_ref(m)) {
            out.push(Seed { name: format!("enc/{}/{}", kind, i), proto: Proto::Bgp, bytes: b, family: None, home: all, from_encoder: true, kind });
        }
    }
    // a long announcement that the encoder has to split into several frames
    let many: Vec<PathNlri> = (0..if cfg!(miri) { 3u32 } else { 1500u32 })
        .map(|i| PathNlri { path_id: 0, nlri: Nlri::V4(Ipv4Net { addr: Ipv4Addr::new(10, (i >> 8) as u8, i as u8, 0), mask: 24 }) })
        .collect();
    let m = Message::Update(Update::Reach { family: Family::IPV4, entries: many, nexthop: nexthop_value(Family::IPV4), attr: Arc::new(attr_values()) });
    let h = idx(specs, "v4");
    let mut enc_v4 = specs[h].build();
    if let Some(b) = encode_msgs(&mut enc_v4, std::slice::from_ref(&m)) {
        out.push(Seed { name: "enc/update-reach/ipv4/split-1500".into(), proto: Proto::Bgp, bytes: b, family: Some(Family::IPV4), home: h, from_encoder: true, kind: "update-stream" });
    }
}

// ------------------------------------------------------------------ RTR / BFD

pub fn rtr_pdu(version: u8, t: u8, sess: u16, body: &[u8]) -> Vec<u8> {
    let mut v = vec![version, t];
    v.extend_from_slice(&sess.to_be_bytes());
    v.extend_from_slice(&((8 + body.len()) as u32).to_be_bytes());
    v.extend_from_slice(body);
    v
}

pub fn rtr_seeds(out: &mut Vec<Seed>) {
    let mut push = |name: String, bytes: Vec<u8>, enc: bool, kind: &'static str| {
        out.push(Seed { name, proto: Proto::Rtr, bytes, family: None, home: 0, from_encoder: enc, kind });
    };
    for ver in [0u8, 1, 2] {
        // RFC 6810 / 8210 PDUs, hand-written
        push(format!("tmpl/rtr/v{}/serial-notify", ver), rtr_pdu(ver, 0, 7, &hx("0000002a")), false, "rtr-0");
        push(format!("tmpl/rtr/v{}/serial-query", ver), rtr_pdu(ver, 1, 7, &hx("0000002a")), false, "rtr-1");
        push(format!("tmpl/rtr/v{}/reset-query", ver), rtr_pdu(ver, 2, 0, &[]), false, "rtr-2");
        push(format!("tmpl/rtr/v{}/cache-response", ver), rtr_pdu(ver, 3, 7, &[]), false, "rtr-3");
        push(format!("tmpl/rtr/v{}/ipv4-prefix", ver), rtr_pdu(ver, 4, 0, &hx("01 18 18 00 0a010200 0000fde9")), false, "rtr-4");
        push(format!("tmpl/rtr/v{}/ipv6-prefix", ver), rtr_pdu(ver, 6, 0, &hx(&format!("01 40 40 00 {} 0000fde9", V6A))), false, "rtr-6");
        if ver == 0 {
            push("tmpl/rtr/v0/end-of-data".into(), rtr_pdu(0, 7, 7, &hx("0000002a")), false, "rtr-7");
        } else {
            push(format!("tmpl/rtr/v{}/end-of-data", ver), rtr_pdu(ver, 7, 7, &hx("0000002a 00000e10 00000258 00001c20")), false, "rtr-7");
        }
        push(format!("tmpl/rtr/v{}/cache-reset", ver), rtr_pdu(ver, 8, 0, &[]), false, "rtr-8");
        // Error Report: encapsulated PDU length + PDU + text length + text
        let mut er = hx("00000008");
        er.extend_from_slice(&rtr_pdu(ver, 2, 0, &[]));
        er.extend_from_slice(&hx("00000003 626164"));
        push(format!("tmpl/rtr/v{}/error-report", ver), rtr_pdu(ver, 10, 2, &er), false, "rtr-10");
        if ver >= 1 {
            // Router Key (RFC 8210 §5.10): flags in the session field, SKI(20) ASN(4) SPKI(n)
            let mut rk = vec![0x11u8; 20];
            rk.extend_from_slice(&hx("0000fde9"));
            rk.extend_from_slice(&[0x30, 0x59, 0x30, 0x13, 0x06, 0x07, 0x2a, 0x86]);
            push(format!("tmpl/rtr/v{}/router-key", ver), rtr_pdu(ver, 9, 0x0100, &rk), false, "rtr-9");
        }
        if ver >= 2 {
            // ASPA (draft-ietf-sidrops-8210bis): flags, customer AS, provider ASes
            push("tmpl/rtr/v2/aspa".into(), rtr_pdu(2, 11, 0x0100, &hx("0000fde9 0000fdea 0000fdeb")), false, "rtr-11");
        }
    }
    // the usual cache answer as one stream
    let mut stream = rtr_pdu(1, 3, 7, &[]);
    stream.extend_from_slice(&rtr_pdu(1, 4, 0, &hx("01 18 18 00 0a010200 0000fde9")));
    stream.extend_from_slice(&rtr_pdu(1, 6, 0, &hx(&format!("01 40 40 00 {} 0000fde9", V6A))));
    stream.extend_from_slice(&rtr_pdu(1, 7, 7, &hx("0000002a 00000e10 00000258 00001c20")));
    push("tmpl/rtr/v1/stream".into(), stream, false, "rtr-stream");
    // repo encoder
    let msgs: Vec<(&'static str, rpki::Message)> = vec![
        ("serial-notify", rpki::Message::SerialNotify { session_id: 7, serial_number: 42 }),
        ("serial-query", rpki::Message::SerialQuery { session_id: 7, serial_number: 42 }),
        ("reset-query", rpki::Message::ResetQuery),
        ("cache-response", rpki::Message::CacheResponse { session_id: 7 }),
        (
            "ipv4-prefix",
            rpki::Message::IpPrefix(rpki::Prefix { net: rustybgp_packet::IpNet::new(IpAddr::V4(Ipv4Addr::new(10, 1, 2, 0)), 24), flags: 1, max_length: 24, as_number: 65001 }),
        ),
        (
            "ipv6-prefix",
            rpki::Message::IpPrefix(rpki::Prefix { net: rustybgp_packet::IpNet::new("2001:db8::".parse().unwrap(), 32), flags: 1, max_length: 48, as_number: 65001 }),
        ),
        ("end-of-data", rpki::Message::EndOfData { session_id: 7, serial_number: 42, refresh_interval: 3600, retry_interval: 600, expire_interval: 7200 }),
        ("cache-reset", rpki::Message::CacheReset),
        ("error-report", rpki::Message::ErrorReport { error_code: 2 }),
    ];
    for ver in [0u8, 1] {
        for (n, m) in msgs.iter() {
            let mut c = rpki::RtrCodec::with_version(ver);
            let mut b = BytesMut::new();
            if c.encode(m, &mut b).is_ok() {
                push(format!("enc/rtr/v{}/{}", ver, n), b.to_vec(), true, "rtr-enc");
            }
        }
    }
}

pub fn bfd_seeds(out: &mut Vec<Seed>) {
    let mut push = |name: &str, bytes: Vec<u8>, enc: bool| {
        out.push(Seed { name: name.to_string(), proto: Proto::Bfd, bytes, family: None, home: 0, from_encoder: enc, kind: "bfd" });
    };
    // RFC 5880 §4.1: vers=1 diag=0 | state=Up | mult 3 | len 24 | my | your | tx | rx | echo
    push("tmpl/bfd/up", hx("20 c0 03 18 00000001 00000002 000f4240 000f4240 00000000"), false);
    push("tmpl/bfd/down-poll", hx("21 60 03 18 00000001 00000000 000f4240 000f4240 00000000"), false);
    // with simple password authentication (A bit, length 24+3+4)
    push("tmpl/bfd/auth", hx("20 c4 03 1f 00000001 00000002 000f4240 000f4240 00000000 01 07 01 70617373"), false);
    let m = bfd::Message {
        diagnostic: bfd::Diagnostic::NO_DIAGNOSTIC,
        state: bfd::State::Init,
        poll: false,
        final_: true,
        control_plane_independent: false,
        demand: false,
        detect_multiplier: 3,
        my_discriminator: 1,
        your_discriminator: 2,
        desired_min_tx_interval: 1_000_000,
        required_min_rx_interval: 1_000_000,
        required_min_echo_rx_interval: 0,
    };
    if let Ok(b) = m.encode() {
        push("enc/bfd/init-final", b, true);
    }
}

pub fn build_corpus() -> Corpus {
    let specs = codec_specs();
    let mut seeds = Vec::new();
    template_bgp_seeds(&specs, &mut seeds);
    encoder_bgp_seeds(&specs, &mut seeds);
    rtr_seeds(&mut seeds);
    bfd_seeds(&mut seeds);
    Corpus { specs, seeds }
}
