//! Structure-aware mutations.  `dissect` is an independent walk over a
//! *valid* BGP frame that records where the length fields, type bytes and
//! variable regions are; `count`/`nth` enumerate the systematic mutation space
//! of a seed analytically (so a shard can visit any index without generating
//! the others).

#[derive(Clone, Debug)]
#[allow(dead_code)] // `kind` shows up in the Debug text of witnesses
pub struct Field {
    pub off: usize,
    pub width: usize,
    /// end of the enclosing container (for "remaining ± 1" values)
    pub scope_end: usize,
    pub kind: &'static str,
}

#[derive(Clone, Debug)]
#[allow(dead_code)]
pub struct Region {
    pub start: usize,
    pub end: usize,
    pub kind: &'static str,
}

#[derive(Clone, Debug)]
pub struct AttrSpan {
    pub start: usize,
    pub end: usize,
    /// attribute type code and start of its value
    pub code: u8,
    pub vstart: usize,
}

#[derive(Clone, Debug, Default)]
pub struct Layout {
    pub len: usize,
    pub fields: Vec<Field>,
    pub regions: Vec<Region>,
    pub attrs: Vec<AttrSpan>,
    /// offsets of bytes that select a type (message type, attribute codes, attribute flags)
    pub type_bytes: Vec<usize>,
    /// (offset of the 2-byte total attribute length, start of attrs, end of attrs) for UPDATE
    pub update: Option<(usize, usize, usize)>,
}

pub fn be16(b: &[u8], o: usize) -> usize {
    ((b[o] as usize) << 8) | b[o + 1] as usize
}

/// Walk the first frame of `b` (a seed).  Defensive: stops at the first inconsistency.
pub fn dissect(b: &[u8]) -> Layout {
    let mut l = Layout { len: b.len(), ..Default::default() };
    if b.len() < 19 {
        return l;
    }
    let flen = be16(b, 16).min(b.len()).max(19);
    l.fields.push(Field { off: 16, width: 2, scope_end: b.len(), kind: "hdr-len" });
    l.type_bytes.push(18);
    match b[18] {
        1 if flen >= 29 => {
            l.fields.push(Field { off: 28, width: 1, scope_end: flen, kind: "open-optlen" });
            l.regions.push(Region { start: 19, end: 28, kind: "open-fixed" });
            let end = (29 + b[28] as usize).min(flen);
            let mut p = 29;
            while p + 2 <= end {
                let ptype = b[p];
                let plen = b[p + 1] as usize;
                l.type_bytes.push(p);
                l.fields.push(Field { off: p + 1, width: 1, scope_end: end, kind: "optparam-len" });
                let pend = (p + 2 + plen).min(end);
                if ptype == 2 {
                    let mut q = p + 2;
                    while q + 2 <= pend {
                        let clen = b[q + 1] as usize;
                        l.type_bytes.push(q);
                        l.fields.push(Field { off: q + 1, width: 1, scope_end: pend, kind: "cap-len" });
                        let cend = (q + 2 + clen).min(pend);
                        if cend > q + 2 {
                            l.regions.push(Region { start: q + 2, end: cend, kind: "cap-value" });
                        }
                        q = cend;
                    }
                }
                p = pend;
            }
        }
        2 if flen >= 23 => {
            let wl = be16(b, 19);
            l.fields.push(Field { off: 19, width: 2, scope_end: flen, kind: "withdrawn-len" });
            if 21 + wl + 2 > flen {
                return l;
            }
            if wl > 0 {
                l.regions.push(Region { start: 21, end: 21 + wl, kind: "withdrawn" });
            }
            let alo = 21 + wl;
            let al = be16(b, alo);
            l.fields.push(Field { off: alo, width: 2, scope_end: flen, kind: "attrs-len" });
            let a0 = alo + 2;
            let aend = (a0 + al).min(flen);
            l.update = Some((alo, a0, aend));
            let mut p = a0;
            while p + 3 <= aend {
                let flags = b[p];
                let code = b[p + 1];
                let (alen, vs) = if flags & 0x10 != 0 {
                    if p + 4 > aend {
                        break;
                    }
                    l.fields.push(Field { off: p + 2, width: 2, scope_end: aend, kind: "attr-extlen" });
                    (be16(b, p + 2), p + 4)
                } else {
                    l.fields.push(Field { off: p + 2, width: 1, scope_end: aend, kind: "attr-len" });
                    (b[p + 2] as usize, p + 3)
                };
                let vend = vs + alen;
                if vend > aend {
                    break;
                }
                l.type_bytes.push(p); // flags
                l.type_bytes.push(p + 1); // code
                l.attrs.push(AttrSpan { start: p, end: vend, code, vstart: vs });
                match code {
                    14 if alen >= 5 => {
                        l.regions.push(Region { start: vs, end: vs + 3, kind: "mp-afi-safi" });
                        l.fields.push(Field { off: vs + 3, width: 1, scope_end: vend, kind: "mp-nhlen" });
                        let nh = b[vs + 3] as usize;
                        let ns = vs + 4 + nh + 1;
                        if nh > 0 && vs + 4 + nh <= vend {
                            l.regions.push(Region { start: vs + 4, end: vs + 4 + nh, kind: "mp-nexthop" });
                        }
                        if ns <= vend {
                            l.regions.push(Region { start: ns - 1, end: ns, kind: "mp-reserved" });
                            if ns < vend {
                                l.regions.push(Region { start: ns, end: vend, kind: "mp-reach-nlri" });
                            }
                        }
                    }
                    15 if alen >= 3 => {
                        l.regions.push(Region { start: vs, end: vs + 3, kind: "mp-afi-safi" });
                        if vs + 3 < vend {
                            l.regions.push(Region { start: vs + 3, end: vend, kind: "mp-unreach-nlri" });
                        }
                    }
                    _ => {
                        if vend > vs {
                            l.regions.push(Region { start: vs, end: vend, kind: "attr-value" });
                        }
                    }
                }
                p = vend;
            }
            if aend < flen {
                l.regions.push(Region { start: aend, end: flen, kind: "nlri" });
            }
        }
        _ => {
            if flen > 19 {
                l.regions.push(Region { start: 19, end: flen, kind: "body" });
            }
        }
    }
    l
}

#[derive(Clone, Debug)]
pub enum Mut {
    SetField { fi: usize, slot: usize },
    Pair { f1: usize, s1: usize, f2: usize, s2: usize },
    Trunc { at: usize, fix: bool },
    SetByte { off: usize, val: u8 },
    RelByte { off: usize, rel: usize },
    Window { off: usize, w: usize, first: u8, fill: u8 },
    Attr { i: usize, op: usize },
    Extend { n: usize, fill: u8 },
    PadTo { len: usize },
}

pub const FIELD_SLOTS: usize = 12;
const PAIR_SLOTS: usize = 4;
const REGION_VALUES: [u8; 14] = [0x00, 0x01, 0x03, 0x07, 0x08, 0x18, 0x20, 0x21, 0x40, 0x7f, 0x80, 0x81, 0xfe, 0xff];
/// plus values relative to the byte's current value b: b-1, b+1, b/2, b-8, b+8, 2b
const REGION_REL: usize = 6;
/// bytes swept per region with the boundary value set
const REGION_SPAN: usize = 64;
/// leading bytes of each region swept over all 256 values (length / type bytes of the NLRI)
const REGION_FULL: usize = 4;
/// multi-byte "interesting value" windows written at a region offset: (width, first byte, fill)
const WINDOWS: [(usize, u8, u8); 8] = [(2, 0xff, 0xff), (2, 0x00, 0x00), (2, 0x80, 0x00), (2, 0x7f, 0xff), (4, 0xff, 0xff), (4, 0x00, 0x00), (4, 0x80, 0x00), (4, 0x7f, 0xff)];
const EXTENDS: [(usize, u8); 10] = [(1, 0), (1, 0xff), (2, 0), (3, 0x18), (4, 0xff), (5, 0x20), (19, 0xff), (23, 0), (64, 0x41), (300, 0)];
const PADS: [usize; 6] = [4095, 4096, 4097, 9000, 65534, 65535];

fn field_value(b: &[u8], f: &Field) -> usize {
    if f.width == 2 { be16(b, f.off) } else { b[f.off] as usize }
}

/// Boundary value number `slot` for length field `f`: {0, 1, v-1, v+1, 0xff,
/// max, remaining-1, remaining, remaining+1, 0x7f, 0x80, v*2}.
pub fn boundary(b: &[u8], f: &Field, slot: usize) -> usize {
    let v = field_value(b, f);
    let max = if f.width == 2 { 0xffff } else { 0xff };
    let remaining = f.scope_end.saturating_sub(f.off + f.width);
    let x = match slot {
        0 => 0,
        1 => 1,
        2 => v.wrapping_sub(1),
        3 => v + 1,
        4 => 0xff,
        5 => max,
        6 => remaining.wrapping_sub(1),
        7 => remaining,
        8 => remaining + 1,
        9 => 0x7f,
        10 => 0x80,
        _ => v * 2 + 1,
    };
    x & max
}

fn pair_slot(s: usize) -> usize {
    // {0, v+1, max, remaining+1}
    [0, 3, 5, 8][s % PAIR_SLOTS]
}

struct Sections {
    s: [usize; 9],
}

fn region_bytes(l: &Layout) -> (usize, usize) {
    let mut span = 0;
    let mut full = 0;
    for r in &l.regions {
        let n = r.end - r.start;
        span += n.min(REGION_SPAN);
        full += n.min(REGION_FULL);
    }
    (span, full)
}

fn sections(l: &Layout) -> Sections {
    let nf = l.fields.len();
    let pairs = nf * nf.saturating_sub(1) / 2;
    let (span, full) = region_bytes(l);
    Sections {
        s: [
            nf * FIELD_SLOTS,
            pairs * PAIR_SLOTS * PAIR_SLOTS,
            l.len.min(512) * 2,
            l.type_bytes.len().min(24) * 256,
            span * (REGION_VALUES.len() + REGION_REL),
            full * 256,
            l.attrs.len() * 5,
            span * WINDOWS.len(),
            EXTENDS.len() + PADS.len(),
        ],
    }
}

pub fn count(l: &Layout) -> usize {
    sections(l).s.iter().sum()
}

fn region_byte(l: &Layout, mut k: usize, cap: usize) -> usize {
    for r in &l.regions {
        let n = (r.end - r.start).min(cap);
        if k < n {
            return r.start + k;
        }
        k -= n;
    }
    l.len.saturating_sub(1)
}

pub fn nth(l: &Layout, mut k: usize) -> (Mut, &'static str) {
    let sec = sections(l);
    let nf = l.fields.len();
    if k < sec.s[0] {
        return (Mut::SetField { fi: k / FIELD_SLOTS, slot: k % FIELD_SLOTS }, "mut:len-field");
    }
    k -= sec.s[0];
    if k < sec.s[1] {
        let pp = PAIR_SLOTS * PAIR_SLOTS;
        let mut pi = k / pp;
        let sl = k % pp;
        // unrank the pair index
        let mut f1 = 0;
        while pi >= nf - 1 - f1 {
            pi -= nf - 1 - f1;
            f1 += 1;
        }
        let f2 = f1 + 1 + pi;
        return (Mut::Pair { f1, s1: pair_slot(sl / PAIR_SLOTS), f2, s2: pair_slot(sl % PAIR_SLOTS) }, "mut:len-pair");
    }
    k -= sec.s[1];
    if k < sec.s[2] {
        // truncation at every offset of the first 512 bytes (longer seeds: spread over the frame)
        let n = l.len.min(512);
        let i = k / 2;
        let at = if l.len <= 512 { i } else { i * l.len / n };
        return (Mut::Trunc { at, fix: k % 2 == 0 }, "mut:truncate");
    }
    k -= sec.s[2];
    if k < sec.s[3] {
        return (Mut::SetByte { off: l.type_bytes[k / 256], val: (k % 256) as u8 }, "mut:type-sweep");
    }
    k -= sec.s[3];
    if k < sec.s[4] {
        let nv = REGION_VALUES.len() + REGION_REL;
        let off = region_byte(l, k / nv, REGION_SPAN);
        let j = k % nv;
        if j < REGION_VALUES.len() {
            return (Mut::SetByte { off, val: REGION_VALUES[j] }, "mut:region-boundary");
        }
        return (Mut::RelByte { off, rel: j - REGION_VALUES.len() }, "mut:region-boundary");
    }
    k -= sec.s[4];
    if k < sec.s[5] {
        return (Mut::SetByte { off: region_byte(l, k / 256, REGION_FULL), val: (k % 256) as u8 }, "mut:region-lead-sweep");
    }
    k -= sec.s[5];
    if k < sec.s[6] {
        return (Mut::Attr { i: k / 5, op: k % 5 }, "mut:attr-dup-reorder");
    }
    k -= sec.s[6];
    if k < sec.s[7] {
        let nw = WINDOWS.len();
        let (w, first, fill) = WINDOWS[k % nw];
        return (Mut::Window { off: region_byte(l, k / nw, REGION_SPAN), w, first, fill }, "mut:region-window");
    }
    k -= sec.s[7];
    if k < EXTENDS.len() {
        return (Mut::Extend { n: EXTENDS[k].0, fill: EXTENDS[k].1 }, "mut:extend");
    }
    k -= EXTENDS.len();
    (Mut::PadTo { len: PADS[k % PADS.len()] }, "mut:pad-to")
}

fn put(b: &mut [u8], off: usize, width: usize, v: usize) {
    if width == 2 {
        if off + 1 < b.len() {
            b[off] = (v >> 8) as u8;
            b[off + 1] = v as u8;
        }
    } else if off < b.len() {
        b[off] = v as u8;
    }
}

pub fn fix_header(b: &mut [u8]) {
    if b.len() >= 18 {
        let n = b.len().min(65535);
        put(b, 16, 2, n);
    }
}

/// Apply mutation `m` to the seed bytes.
pub fn apply(seed: &[u8], l: &Layout, m: &Mut) -> Vec<u8> {
    let mut b = seed.to_vec();
    match m {
        Mut::SetField { fi, slot } => {
            let f = &l.fields[*fi];
            let v = boundary(seed, f, *slot);
            put(&mut b, f.off, f.width, v);
        }
        Mut::Pair { f1, s1, f2, s2 } => {
            let a = &l.fields[*f1];
            let c = &l.fields[*f2];
            put(&mut b, a.off, a.width, boundary(seed, a, *s1));
            put(&mut b, c.off, c.width, boundary(seed, c, *s2));
        }
        Mut::Trunc { at, fix } => {
            b.truncate(*at);
            if *fix {
                fix_header(&mut b);
            }
        }
        Mut::SetByte { off, val } => {
            if *off < b.len() {
                b[*off] = *val;
            }
        }
        Mut::RelByte { off, rel } => {
            if *off < b.len() {
                let v = b[*off];
                b[*off] = match rel {
                    0 => v.wrapping_sub(1),
                    1 => v.wrapping_add(1),
                    2 => v / 2,
                    3 => v.wrapping_sub(8),
                    4 => v.wrapping_add(8),
                    _ => v.wrapping_mul(2),
                };
            }
        }
        Mut::Window { off, w, first, fill } => {
            for i in 0..*w {
                if off + i < b.len() {
                    b[off + i] = if i == 0 { *first } else { *fill };
                }
            }
        }
        Mut::Attr { i, op } => {
            if let Some((alo, a0, aend)) = l.update {
                let mut attrs: Vec<Vec<u8>> = l.attrs.iter().map(|a| seed[a.start..a.end].to_vec()).collect();
                let i = (*i).min(attrs.len().saturating_sub(1));
                if !attrs.is_empty() {
                    match op {
                        0 => {
                            let d = attrs[i].clone();
                            attrs.push(d); // duplicate at the end
                        }
                        1 => {
                            let d = attrs[i].clone();
                            attrs.insert(0, d); // duplicate at the front
                        }
                        2 => {
                            attrs.remove(i);
                        }
                        3 => {
                            let j = (i + 1) % attrs.len();
                            attrs.swap(i, j);
                        }
                        _ => attrs.reverse(),
                    }
                }
                let flat: Vec<u8> = attrs.concat();
                let mut nb = seed[..alo].to_vec();
                nb.extend_from_slice(&(flat.len().min(65535) as u16).to_be_bytes());
                nb.extend_from_slice(&flat);
                nb.extend_from_slice(&seed[aend.max(a0)..]);
                b = nb;
                fix_header(&mut b);
            }
        }
        Mut::Extend { n, fill } => {
            // only the first frame of a multi-frame seed
            b.extend(std::iter::repeat_n(*fill, *n));
            fix_header(&mut b);
        }
        Mut::PadTo { len } => {
            if b.len() < *len {
                b.resize(*len, 0);
            }
            fix_header(&mut b);
        }
    }
    b
}

/// Remove `[a, b)` from a BGP frame and decrement every length field whose
/// value covers the removed range, so the frame stays consistently framed
/// (used by the shrinker).  None when nothing sensible can be done.
pub fn delete_consistent(frame: &[u8], a: usize, b: usize) -> Option<Vec<u8>> {
    if a < 19 || b > frame.len() || a >= b {
        return None;
    }
    let l = dissect(frame);
    let n = b - a;
    let mut out = frame.to_vec();
    for f in &l.fields {
        let start = f.off + f.width;
        let v = field_value(frame, f);
        if f.off >= a && f.off < b {
            continue; // the field itself is being removed
        }
        if start <= a && b <= start + v {
            put(&mut out, f.off, f.width, v - n);
        } else if f.off + f.width > a && f.off < b {
            return None;
        }
    }
    out.drain(a..b);
    Some(out)
}

/// Random cut points for fragmented delivery of `len` bytes.
pub fn random_cuts(rng: &mut rbgp_verif::common::Rng, len: usize) -> Vec<usize> {
    if len < 2 {
        return vec![];
    }
    let mode = rng.below(4);
    let mut cuts: Vec<usize> = match mode {
        0 => {
            // a few random cuts
            let n = 1 + rng.usize(4);
            (0..n).map(|_| 1 + rng.usize(len - 1)).collect()
        }
        1 => {
            // cut inside the first header and once more
            let mut v = vec![1 + rng.usize(18.min(len - 1))];
            v.push(1 + rng.usize(len - 1));
            v
        }
        2 => {
            // fixed small chunk size
            let c = 1 + rng.usize(7);
            (1..len).filter(|i| i % c == 0).take(4096).collect()
        }
        _ => {
            // one cut just before the end
            vec![len - 1]
        }
    };
    cuts.sort_unstable();
    cuts.dedup();
    cuts
}
