//! Mutation class "consistently grown inner length": an inner length field
//! (NLRI bit/byte lengths of every family, EVPN / MUP route lengths and the
//! lengths nested in them, flowspec NLRI and prefix-component lengths, BGP-LS
//! NLRI / TLV lengths, label-stack bit counts, AS_PATH segment counts,
//! tunnel-encap / prefix-SID / LS-attribute / AIGP TLV lengths, capability and
//! optional-parameter lengths) is raised beyond its legal range AND real bytes
//! are inserted where its data ends, with every enclosing length (route
//! length octet, NLRI length, TLV containers, attribute length, total path
//! attribute length, message length) grown by the same amount -- so the frame
//! stays consistently framed all the way down and the over-long value reaches
//! the code that uses it.
//!
//! The walkers below are written from the RFCs / drafts (wire layouts), not
//! from the decoders; they are only applied to seeds (valid frames) and stop
//! at the first inconsistency.
use crate::mutate::{Layout, be16};
use rustybgp_packet::bgp::Family;

#[derive(Clone, Copy, Debug, PartialEq, Eq)]
pub enum Unit {
    Bits,
    /// value counts items of this many bytes
    Bytes(usize),
}

#[derive(Clone, Debug)]
pub struct LenNode {
    pub off: usize,
    pub width: usize,
    pub unit: Unit,
    /// absolute offset where the data governed by this field ends (insertion point)
    pub cover_end: usize,
    pub kind: &'static str,
    /// counter bucket: "nlri:<family>", "attr-tlv", "as-path", "open", "outer"
    pub bucket: &'static str,
}

struct W<'a> {
    b: &'a [u8],
    out: Vec<LenNode>,
}

impl W<'_> {
    fn node(&mut self, off: usize, width: usize, unit: Unit, cover_end: usize, kind: &'static str, bucket: &'static str, limit: usize) -> bool {
        if off + width > self.b.len() || cover_end > limit || cover_end < off + width {
            return false;
        }
        self.out.push(LenNode { off, width, unit, cover_end, kind, bucket });
        true
    }
}

pub fn nlri_bucket(f: Family) -> &'static str {
    match f {
        Family::IPV4 => "grow-inner:ipv4",
        Family::IPV6 => "grow-inner:ipv6",
        Family::IPV4_MC => "grow-inner:ipv4-mc",
        Family::IPV6_MC => "grow-inner:ipv6-mc",
        Family::IPV4_MPLS => "grow-inner:ipv4-mpls",
        Family::IPV6_MPLS => "grow-inner:ipv6-mpls",
        Family::LS => "grow-inner:ls",
        Family::IPV4_MUP => "grow-inner:ipv4-mup",
        Family::IPV6_MUP => "grow-inner:ipv6-mup",
        Family::IPV4_VPN => "grow-inner:ipv4-vpn",
        Family::IPV6_VPN => "grow-inner:ipv6-vpn",
        Family::IPV4_FLOWSPEC => "grow-inner:ipv4-flowspec",
        Family::IPV6_FLOWSPEC => "grow-inner:ipv6-flowspec",
        Family::IPV4_FLOWSPEC_VPN => "grow-inner:ipv4-flowspec-vpn",
        Family::IPV6_FLOWSPEC_VPN => "grow-inner:ipv6-flowspec-vpn",
        Family::IPV4_SRPOLICY => "grow-inner:ipv4-srpolicy",
        Family::IPV6_SRPOLICY => "grow-inner:ipv6-srpolicy",
        Family::L2VPN_EVPN => "grow-inner:l2vpn-evpn",
        Family::RTC => "grow-inner:rtc",
        _ => "grow-inner:other",
    }
}

fn bits_bytes(bits: usize) -> usize {
    bits.div_ceil(8)
}

/// BGP-LS style TLVs: type(2) len(2) value; node-descriptor containers nest.
fn walk_ls_tlvs(w: &mut W, mut q: usize, end: usize, bucket: &'static str, depth: usize) {
    while q + 4 <= end {
        let t = be16(w.b, q);
        let len = be16(w.b, q + 2);
        let ce = q + 4 + len;
        if !w.node(q + 2, 2, Unit::Bytes(1), ce, "ls-tlv-len", bucket, end) {
            return;
        }
        if (t == 256 || t == 257) && depth < 3 {
            walk_ls_tlvs(w, q + 4, ce, bucket, depth + 1);
        }
        if t == 265 && len >= 1 {
            // IP reachability: prefix length in bits + prefix bytes up to the end of the TLV
            w.node(q + 4, 1, Unit::Bits, ce, "ls-ip-reach-bits", bucket, end);
        }
        q = ce;
    }
}

/// Flowspec components (RFC 8955 / 8956) between q and end.
fn walk_flowspec_components(w: &mut W, mut q: usize, end: usize, v6: bool, bucket: &'static str) {
    while q < end {
        let t = w.b[q];
        if t == 1 || t == 2 {
            if q + 1 >= end {
                return;
            }
            let bits = w.b[q + 1] as usize;
            let data = if v6 { q + 3 } else { q + 2 };
            let ce = data + bits_bytes(bits);
            if !w.node(q + 1, 1, Unit::Bits, ce, "flowspec-prefix-bits", bucket, end) {
                return;
            }
            q = ce;
        } else {
            // operator/value list: op byte carries a 2-bit value size, the last op has bit 7 set
            q += 1;
            loop {
                if q >= end {
                    return;
                }
                let op = w.b[q];
                q += 1 + (1usize << ((op >> 4) & 3));
                if op & 0x80 != 0 {
                    break;
                }
            }
        }
    }
}

/// One address family's NLRI list in b[start..end].
fn walk_nlri(w: &mut W, f: Family, start: usize, end: usize, ap: bool) {
    let bucket = nlri_bucket(f);
    let mut p = start;
    let mut guard = 0;
    while p < end && guard < 64 {
        guard += 1;
        if ap {
            p += 4;
            if p >= end {
                return;
            }
        }
        let next = match f {
            Family::IPV4 | Family::IPV6 | Family::IPV4_MC | Family::IPV6_MC | Family::IPV4_MPLS | Family::IPV6_MPLS
            | Family::IPV4_VPN | Family::IPV6_VPN | Family::IPV4_SRPOLICY | Family::IPV6_SRPOLICY | Family::RTC => {
                // one leading octet: length in bits of everything that follows in this NLRI
                let ce = p + 1 + bits_bytes(w.b[p] as usize);
                if !w.node(p, 1, Unit::Bits, ce, "nlri-total-bits", bucket, end) {
                    return;
                }
                ce
            }
            Family::IPV4_FLOWSPEC | Family::IPV6_FLOWSPEC | Family::IPV4_FLOWSPEC_VPN | Family::IPV6_FLOWSPEC_VPN => {
                let first = w.b[p] as usize;
                let (len, hdr) = if first < 0xf0 {
                    (first, 1)
                } else {
                    if p + 1 >= end {
                        return;
                    }
                    (((first & 0x0f) << 8) | w.b[p + 1] as usize, 2)
                };
                let ce = p + hdr + len;
                if !w.node(p, hdr, Unit::Bytes(1), ce, "flowspec-nlri-len", bucket, end) {
                    return;
                }
                let vpn = matches!(f, Family::IPV4_FLOWSPEC_VPN | Family::IPV6_FLOWSPEC_VPN);
                let body = p + hdr + if vpn { 8 } else { 0 };
                if body <= ce {
                    walk_flowspec_components(w, body, ce, f.afi() == Family::AFI_IP6, bucket);
                }
                ce
            }
            Family::LS => {
                if p + 4 > end {
                    return;
                }
                let len = be16(w.b, p + 2);
                let ce = p + 4 + len;
                if !w.node(p + 2, 2, Unit::Bytes(1), ce, "ls-nlri-len", bucket, end) {
                    return;
                }
                // protocol id (1) + identifier (8), then descriptor TLVs
                if p + 13 <= ce {
                    walk_ls_tlvs(w, p + 13, ce, bucket, 0);
                }
                ce
            }
            Family::L2VPN_EVPN => {
                if p + 2 > end {
                    return;
                }
                let rt = w.b[p];
                let rl = w.b[p + 1] as usize;
                let ce = p + 2 + rl;
                if !w.node(p + 1, 1, Unit::Bytes(1), ce, "evpn-route-len", bucket, end) {
                    return;
                }
                let body = p + 2;
                let ip_len_at = |w: &mut W, at: usize| {
                    if at < ce {
                        let bits = w.b[at] as usize;
                        w.node(at, 1, Unit::Bits, at + 1 + bits_bytes(bits), "evpn-ip-len-bits", bucket, ce);
                    }
                };
                match rt {
                    2 => {
                        // RD(8) ESI(10) ETag(4) MAC len(1) MAC(6) IP len(1) IP labels
                        let ml = body + 22;
                        if ml < ce {
                            let bits = w.b[ml] as usize;
                            w.node(ml, 1, Unit::Bits, ml + 1 + bits_bytes(bits), "evpn-mac-len-bits", bucket, ce);
                        }
                        ip_len_at(w, body + 29);
                    }
                    3 => ip_len_at(w, body + 12), // RD(8) ETag(4) IP len
                    4 => ip_len_at(w, body + 18), // RD(8) ESI(10) IP len
                    5 => {
                        // RD(8) ESI(10) ETag(4) prefix len(1) prefix(4|16) gw(4|16) label(3)
                        let pl = body + 22;
                        if pl < ce {
                            let fieldlen = if rl >= 58 { 16 } else { 4 };
                            w.node(pl, 1, Unit::Bits, pl + 1 + fieldlen, "evpn-prefix-len-bits", bucket, ce);
                        }
                    }
                    _ => {}
                }
                ce
            }
            Family::IPV4_MUP | Family::IPV6_MUP => {
                // arch(1) route type(2) length(1) body
                if p + 4 > end {
                    return;
                }
                let rt = be16(w.b, p + 1);
                let len = w.b[p + 3] as usize;
                let ce = p + 4 + len;
                if !w.node(p + 3, 1, Unit::Bytes(1), ce, "mup-route-len", bucket, end) {
                    return;
                }
                let body = p + 4;
                let at = body + 8; // after the RD
                match rt {
                    1 if at < ce => {
                        let bits = w.b[at] as usize;
                        w.node(at, 1, Unit::Bits, at + 1 + bits_bytes(bits), "mup-prefix-bits", bucket, ce);
                    }
                    3 if at < ce => {
                        // prefix len, prefix, TEID(4) QFI(1) endpoint len, endpoint, source len, source
                        let bits = w.b[at] as usize;
                        let pe = at + 1 + bits_bytes(bits);
                        if w.node(at, 1, Unit::Bits, pe, "mup-prefix-bits", bucket, ce) {
                            let ea = pe + 5;
                            if ea < ce {
                                let eb = w.b[ea] as usize;
                                let ee = ea + 1 + bits_bytes(eb);
                                if w.node(ea, 1, Unit::Bits, ee, "mup-endpoint-len-bits", bucket, ce) && ee < ce {
                                    let sb = w.b[ee] as usize;
                                    w.node(ee, 1, Unit::Bits, ee + 1 + bits_bytes(sb), "mup-source-len-bits", bucket, ce);
                                }
                            }
                        }
                    }
                    4 if at < ce => {
                        // endpoint length covers the address and the TEID bits behind it
                        let bits = w.b[at] as usize;
                        w.node(at, 1, Unit::Bits, at + 1 + bits_bytes(bits), "mup-endpoint-len-bits", bucket, ce);
                    }
                    _ => {}
                }
                ce
            }
            _ => return,
        };
        if next <= p {
            return;
        }
        p = next;
    }
}

fn walk_attr_value(w: &mut W, code: u8, vs: usize, ve: usize) {
    match code {
        2 | 17 => {
            // AS_PATH / AS4_PATH: segment type(1) count(1) ASNs; width by what fits exactly
            for asw in [4usize, 2] {
                let mut q = vs;
                let mut nodes = Vec::new();
                let mut ok = true;
                while q < ve {
                    if q + 2 > ve {
                        ok = false;
                        break;
                    }
                    let ce = q + 2 + w.b[q + 1] as usize * asw;
                    if ce > ve {
                        ok = false;
                        break;
                    }
                    nodes.push((q + 1, ce));
                    q = ce;
                }
                if ok && (code == 2 || asw == 4) {
                    for (off, ce) in nodes {
                        w.node(off, 1, Unit::Bytes(asw), ce, "as-path-seg-count", "grow-inner:as-path", ve);
                    }
                    break;
                }
            }
        }
        23 => {
            // tunnel encapsulation: type(2) len(2) { sub-TLV type(1) len(1|2) value }
            let mut q = vs;
            while q + 4 <= ve {
                let len = be16(w.b, q + 2);
                let ce = q + 4 + len;
                if !w.node(q + 2, 2, Unit::Bytes(1), ce, "tunnel-tlv-len", "grow-inner:tunnel-encap", ve) {
                    return;
                }
                let mut r = q + 4;
                while r + 2 <= ce {
                    let st = w.b[r];
                    let (sl, hdr) = if st >= 128 {
                        if r + 3 > ce {
                            break;
                        }
                        (be16(w.b, r + 1), 3)
                    } else {
                        (w.b[r + 1] as usize, 2)
                    };
                    let se = r + hdr + sl;
                    if !w.node(r + 1, hdr - 1, Unit::Bytes(1), se, "tunnel-subtlv-len", "grow-inner:tunnel-encap", ce) {
                        break;
                    }
                    if st == 128 {
                        // segment list: reserved(1) then type(1) len(1) sub-sub-TLVs
                        let mut x = r + hdr + 1;
                        while x + 2 <= se {
                            let xe = x + 2 + w.b[x + 1] as usize;
                            if !w.node(x + 1, 1, Unit::Bytes(1), xe, "tunnel-segment-len", "grow-inner:tunnel-encap", se) {
                                break;
                            }
                            x = xe;
                        }
                    }
                    r = se;
                }
                q = ce;
            }
        }
        40 => {
            // prefix-SID: type(1) len(2); SRv6 service TLVs nest sub-TLVs and sub-sub-TLVs the same way
            let mut q = vs;
            while q + 3 <= ve {
                let t = w.b[q];
                let ce = q + 3 + be16(w.b, q + 1);
                if !w.node(q + 1, 2, Unit::Bytes(1), ce, "prefix-sid-tlv-len", "grow-inner:prefix-sid", ve) {
                    return;
                }
                if t == 5 || t == 6 {
                    let mut r = q + 3 + 1; // reserved
                    while r + 3 <= ce {
                        let st = w.b[r];
                        let se = r + 3 + be16(w.b, r + 1);
                        if !w.node(r + 1, 2, Unit::Bytes(1), se, "prefix-sid-subtlv-len", "grow-inner:prefix-sid", ce) {
                            break;
                        }
                        if st == 1 {
                            let mut x = r + 3 + 21; // SID information fixed part
                            while x + 3 <= se {
                                let xe = x + 3 + be16(w.b, x + 1);
                                if !w.node(x + 1, 2, Unit::Bytes(1), xe, "prefix-sid-subsubtlv-len", "grow-inner:prefix-sid", se) {
                                    break;
                                }
                                x = xe;
                            }
                        }
                        r = se;
                    }
                }
                q = ce;
            }
        }
        29 => {
            // BGP-LS attribute: type(2) len(2); SR capabilities / SRLB carry size(3) + sub-TLV type(1) len(1)
            let mut q = vs;
            while q + 4 <= ve {
                let t = be16(w.b, q);
                let ce = q + 4 + be16(w.b, q + 2);
                if !w.node(q + 2, 2, Unit::Bytes(1), ce, "ls-attr-tlv-len", "grow-inner:ls-attr", ve) {
                    return;
                }
                if t == 1034 || t == 1036 {
                    let mut r = q + 4 + 2;
                    while r + 5 <= ce {
                        let re = r + 5 + w.b[r + 4] as usize;
                        if !w.node(r + 4, 1, Unit::Bytes(1), re, "ls-attr-sid-subtlv-len", "grow-inner:ls-attr", ce) {
                            break;
                        }
                        r = re;
                    }
                }
                q = ce;
            }
        }
        26 => {
            // AIGP: type(1) len(2), the length includes the 3 header bytes
            let mut q = vs;
            while q + 3 <= ve {
                let l = be16(w.b, q + 1);
                if l < 3 || !w.node(q + 1, 2, Unit::Bytes(1), q + l, "aigp-tlv-len", "grow-inner:aigp", ve) {
                    return;
                }
                q += l;
            }
        }
        _ => {}
    }
}

/// Every length field of the first frame of `b`, outer and inner.
/// `ap(f)`: whether NLRIs of family f carry path identifiers in this seed.
pub fn len_tree(b: &[u8], l: &Layout, ap: &dyn Fn(Family) -> bool) -> Vec<LenNode> {
    let mut w = W { b, out: Vec::new() };
    if b.len() < 19 || be16(b, 16) != b.len() {
        return w.out; // single-frame seeds only
    }
    let flen = b.len();
    // outer fields as found by the frame dissector
    for f in &l.fields {
        let v = if f.width == 2 { be16(b, f.off) } else { b[f.off] as usize };
        let ce = if f.kind == "hdr-len" { flen } else { f.off + f.width + v };
        let bucket = match f.kind {
            "open-optlen" | "optparam-len" | "cap-len" => "grow:open",
            _ => "grow:outer",
        };
        w.node(f.off, f.width, Unit::Bytes(1), ce, f.kind, bucket, flen);
    }
    match b[18] {
        1 => {
            // FQDN capability (73): host len(1) host, domain len(1) domain
            for r in l.regions.iter().filter(|r| r.kind == "cap-value") {
                if r.start >= 2 && b[r.start - 2] == 73 && r.end > r.start {
                    let he = r.start + 1 + b[r.start] as usize;
                    if w.node(r.start, 1, Unit::Bytes(1), he, "fqdn-host-len", "grow:open", r.end) && he < r.end {
                        w.node(he, 1, Unit::Bytes(1), he + 1 + b[he] as usize, "fqdn-domain-len", "grow:open", r.end);
                    }
                }
            }
        }
        2 => {
            for r in &l.regions {
                match r.kind {
                    "withdrawn" | "nlri" => walk_nlri(&mut w, Family::IPV4, r.start, r.end, ap(Family::IPV4)),
                    _ => {}
                }
            }
            for a in &l.attrs {
                let (vs, ve) = (a.vstart, a.end);
                match a.code {
                    14 if ve >= vs + 5 => {
                        let f = Family::new(be16(b, vs) as u16, b[vs + 2]);
                        let ns = vs + 4 + b[vs + 3] as usize + 1;
                        if ns <= ve {
                            walk_nlri(&mut w, f, ns, ve, ap(f));
                        }
                    }
                    15 if ve >= vs + 3 => {
                        let f = Family::new(be16(b, vs) as u16, b[vs + 2]);
                        walk_nlri(&mut w, f, vs + 3, ve, ap(f));
                    }
                    c => walk_attr_value(&mut w, c, vs, ve),
                }
            }
        }
        _ => {}
    }
    w.out
}

/// growth steps in bytes
pub const GROW_BYTES: [usize; 9] = [1, 2, 3, 4, 5, 8, 16, 17, 32];

pub fn count(nodes: &[LenNode]) -> usize {
    nodes.len() * GROW_BYTES.len() * 2
}

fn get(b: &[u8], n: &LenNode) -> usize {
    if n.width == 2 { be16(b, n.off) } else { b[n.off] as usize }
}

fn set(b: &mut [u8], n: &LenNode, v: usize) -> bool {
    if n.width == 2 {
        // the two-octet flowspec length keeps its 0xf marker nibble: only 12 bits may grow
        if n.kind == "flowspec-nlri-len" && (v >> 12) != 0xf {
            return false;
        }
        if v > 0xffff {
            return false;
        }
        b[n.off] = (v >> 8) as u8;
        b[n.off + 1] = v as u8;
    } else {
        if v > 0xff || (n.kind == "flowspec-nlri-len" && v >= 0xf0) {
            return false;
        }
        b[n.off] = v as u8;
    }
    true
}

/// Mutation number k of the tree: grow node k / (steps*2) by GROW_BYTES[..] bytes.
/// Variant 0: the field grows by exactly the inserted amount; variant 1 (bit
/// counted fields): by 7 bits less, the smallest count that still needs the
/// inserted bytes.  Returns None when some enclosing field cannot represent
/// the grown size.
pub fn nth(seed: &[u8], nodes: &[LenNode], k: usize) -> Option<(Vec<u8>, &'static str, String)> {
    let per = GROW_BYTES.len() * 2;
    let t = &nodes[k / per];
    let kb = GROW_BYTES[(k % per) / 2];
    let variant = k % 2;
    let mut b = seed.to_vec();
    // the target
    let v = get(seed, t);
    let nv = match t.unit {
        Unit::Bits => v + kb * 8 - if variant == 1 { 7 } else { 0 },
        Unit::Bytes(n) => {
            if variant == 1 || kb % n != 0 {
                return None;
            }
            v + kb / n
        }
    };
    if !set(&mut b, t, nv) {
        return None;
    }
    // every enclosing length grows by the same number of bytes
    for a in nodes {
        let encloses = a.off < t.off && t.cover_end <= a.cover_end && a.cover_end > t.off;
        if !encloses {
            continue;
        }
        let av = get(seed, a);
        let nav = match a.unit {
            Unit::Bits => av + kb * 8,
            Unit::Bytes(n) => {
                if kb % n != 0 {
                    return None;
                }
                av + kb / n
            }
        };
        if !set(&mut b, a, nav) {
            return None;
        }
    }
    let fill = [0x00u8, 0xff, 0x55, 0x0a][(k / 2) % 4];
    let at = t.cover_end.min(b.len());
    b.splice(at..at, std::iter::repeat_n(fill, kb));
    Some((b, t.bucket, format!("{} at {} := {} (+{} bytes 0x{:02x} inserted at {}, enclosing lengths grown)", t.kind, t.off, nv, kb, fill, at)))
}
