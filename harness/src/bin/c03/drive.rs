//! Delivery loops (the same loops the daemon runs around each decoder) and
//! the C03 oracle clauses.  Everything here returns findings instead of
//! writing to the report, so the same code serves the main run, shrinking and
//! replay.
use bytes::BytesMut;
use rbgp_verif::common::*;
use rustybgp_packet::bgp::{self, Attribute, ParsedMessage, ParsedUpdate, PeerCodec};
use rustybgp_packet::{bfd, rpki};
use tokio_util::codec::Decoder;

#[derive(Clone, Debug)]
pub struct Finding {
    pub sig: String,
    pub what: String,
    /// buffer contents at the time of the offending call (replayable as one whole delivery)
    pub at_buffer: Vec<u8>,
    pub detail: String,
}

#[derive(Clone, Debug, PartialEq, Eq)]
pub enum Term {
    /// decoder asked for more bytes; `residual` bytes are left in the buffer
    NeedMore { residual: usize },
    /// protocol error: session ends (NOTIFICATION / drop)
    Error(String),
    /// a finding stopped this delivery (panic, no-progress, stall)
    Stopped,
}

#[derive(Clone, Debug)]
pub struct Trace {
    pub msgs: Vec<u64>,
    pub term: Term,
    pub findings: Vec<Finding>,
    /// at least one frame got past the header checks (reached the body parser)
    pub deep: bool,
    pub counters: Vec<&'static str>,
    /// families whose NLRI decoder produced at least one entry
    pub fams: Vec<bgp::Family>,
}

impl Trace {
    fn new() -> Trace {
        Trace { msgs: Vec::new(), term: Term::NeedMore { residual: 0 }, findings: Vec::new(), deep: false, counters: Vec::new(), fams: Vec::new() }
    }
}

pub fn chunks<'a>(input: &'a [u8], cuts: &[usize]) -> Vec<&'a [u8]> {
    let mut v = Vec::with_capacity(cuts.len() + 1);
    let mut p = 0;
    for &c in cuts {
        if c > p && c < input.len() {
            v.push(&input[p..c]);
            p = c;
        }
    }
    v.push(&input[p..]);
    v
}

/// Lazily materialised copy of the decoder's buffer at the time of a call.
#[derive(Clone, Copy)]
struct Snap<'a> {
    input: &'a [u8],
    at: usize,
    n: usize,
}

impl Snap<'_> {
    fn get(&self) -> Vec<u8> {
        let a = self.at.min(self.input.len());
        let b = (self.at + self.n).min(self.input.len());
        self.input[a..b].to_vec()
    }
}

fn panic_finding(dec: &str, p: &PanicInfo, buf: &[u8]) -> Finding {
    Finding {
        sig: format!("C03/panic/{}:{}", p.location, panic_class(&p.message)),
        what: format!("{} panicked at {}: {}", dec, p.location, p.message),
        at_buffer: buf.to_vec(),
        detail: p.message.clone(),
    }
}

/// FNV-1a over everything written through `fmt::Write` (no allocation).
struct HashWriter(u64);

impl std::fmt::Write for HashWriter {
    fn write_str(&mut self, s: &str) -> std::fmt::Result {
        for b in s.bytes() {
            self.0 ^= b as u64;
            self.0 = self.0.wrapping_mul(0x0000_0100_0000_01B3);
        }
        Ok(())
    }
}

/// Under Miri the `Debug` machinery dominates the run time: fingerprint the shape only.
fn fp_parsed_cheap(m: &ParsedMessage) -> u64 {
    let n = |e: &Option<bgp::ReachNlri>| e.as_ref().map_or(0, |r| 1 + r.entries.len() as u64);
    let u = |e: &Option<bgp::UnreachNlri>| e.as_ref().map_or(0, |r| 1 + r.entries.len() as u64);
    match m {
        ParsedMessage::Open(o) => 1 ^ ((o.as_number as u64) << 8) ^ ((o.capability.len() as u64) << 40),
        ParsedMessage::Update(ParsedUpdate::EndOfRib(_)) => 2,
        ParsedMessage::Update(ParsedUpdate::Routes { reach, mp_reach, unreach, mp_unreach, attrs, error_attrs }) => {
            3 ^ (n(reach) << 8) ^ (n(mp_reach) << 16) ^ (u(unreach) << 24) ^ (u(mp_unreach) << 32) ^ ((attrs.len() as u64) << 40) ^ ((error_attrs.len() as u64) << 48)
        }
        ParsedMessage::Notification(n) => 4 ^ ((n.notification_code() as u64) << 8) ^ ((n.notification_subcode() as u64) << 16),
        ParsedMessage::Keepalive => 5,
        ParsedMessage::RouteRefresh { .. } => 6,
    }
}

fn fp_parsed(m: &ParsedMessage) -> u64 {
    use std::fmt::Write;
    if cfg!(miri) {
        return fp_parsed_cheap(m);
    }
    let mut w = HashWriter(0xcbf2_9ce4_8422_2325);
    let _ = match m {
        ParsedMessage::Open(o) => write!(w, "open {} {} {} {:?}", o.as_number, o.holdtime.seconds(), o.router_id, o.capability),
        ParsedMessage::Update(ParsedUpdate::EndOfRib(f)) => write!(w, "eor {:?}", f),
        ParsedMessage::Update(ParsedUpdate::Routes { reach, mp_reach, unreach, mp_unreach, attrs, error_attrs }) => {
            write!(w, "routes {:?} {:?} {:?} {:?} {:?} {:?}", reach, mp_reach, unreach, mp_unreach, attrs, error_attrs)
        }
        ParsedMessage::Notification(n) => write!(w, "notification {:?}", n),
        ParsedMessage::Keepalive => write!(w, "keepalive"),
        ParsedMessage::RouteRefresh { family } => write!(w, "route-refresh {:?}", family),
    };
    w.0
}

fn fp_message(m: &bgp::Message) -> u64 {
    use std::fmt::Write;
    if cfg!(miri) {
        return match m {
            bgp::Message::Open(_) => 1,
            bgp::Message::Update(bgp::Update::Reach { entries, attr, .. }) => 2 ^ ((entries.len() as u64) << 8) ^ ((attr.len() as u64) << 32),
            bgp::Message::Update(bgp::Update::Unreach { entries, .. }) => 3 ^ ((entries.len() as u64) << 8),
            bgp::Message::Update(bgp::Update::EndOfRib(_)) => 4,
            bgp::Message::Notification(_) => 5,
            bgp::Message::Keepalive => 6,
            bgp::Message::RouteRefresh { .. } => 7,
        };
    }
    let mut w = HashWriter(0xcbf2_9ce4_8422_2325);
    let _ = match m {
        bgp::Message::Open(_) => write!(w, "open"),
        bgp::Message::Update(bgp::Update::Reach { family, entries, nexthop, attr }) => {
            write!(w, "reach {:?} {} {:?} {}", family, entries.len(), nexthop, attr.len())
        }
        bgp::Message::Update(bgp::Update::Unreach { family, entries }) => write!(w, "unreach {:?} {}", family, entries.len()),
        bgp::Message::Update(bgp::Update::EndOfRib(f)) => write!(w, "eor {:?}", f),
        bgp::Message::Notification(_) => write!(w, "notification"),
        bgp::Message::Keepalive => write!(w, "keepalive"),
        bgp::Message::RouteRefresh { family } => write!(w, "rr {:?}", family),
    };
    w.0
}

/// Attribute value decoders that the daemon applies to received bytes later
/// (tunnel encapsulation, prefix SID, BGP-LS attribute): no-panic only.
fn attr_value_decoders(attrs: &[Attribute], tr: &mut Trace, frame: &Snap) {
    for a in attrs {
        let Some(bin) = a.binary() else { continue };
        let (name, r): (&str, Result<(), PanicInfo>) = match a.code() {
            Attribute::TUNNEL_ENCAP => ("tunnel_encap::decode", guard(|| drop(rustybgp_packet::tunnel_encap::decode(bin)))),
            Attribute::PREFIX_SID => ("prefix_sid::PrefixSid::decode", guard(|| drop(rustybgp_packet::prefix_sid::PrefixSid::decode(bin)))),
            Attribute::LS => ("ls::parse_ls_attr", guard(|| drop(rustybgp_packet::ls::parse_ls_attr(bin)))),
            _ => continue,
        };
        tr.counters.push("attr-value-decoder-calls");
        if let Err(p) = r {
            tr.findings.push(panic_finding(name, &p, &frame.get()));
        }
    }
}

const ZERO_PROGRESS_LIMIT: usize = 8;

/// What the protocol's own framing says about the front of a buffer.
#[derive(Clone, Copy, Debug, PartialEq, Eq)]
pub enum Head {
    /// fewer bytes than the fixed header
    ShortHeader,
    /// header complete, length field below the header size
    LengthBelowHeader(usize),
    /// header complete, length field above the protocol maximum
    LengthAboveMax(usize),
    /// valid length, not all of the frame buffered yet
    Partial(usize),
    /// a complete frame of this length is buffered
    Complete(usize),
}

enum Step {
    Panic(PanicInfo, &'static str),
    Msg,
    NeedMore,
    Error(String),
}

trait Side {
    fn name(&self) -> &'static str;
    fn hdr(&self) -> usize;
    fn min(&self) -> usize {
        self.hdr()
    }
    fn max(&self) -> usize;
    /// length field of a buffer that holds at least `hdr()` bytes
    fn len_field(&self, b: &[u8]) -> usize;
    fn stall_class(&self, b: &[u8]) -> &'static str;
    fn step(&mut self, buf: &mut BytesMut, tr: &mut Trace, snap: &Snap) -> Step;

    fn head(&self, b: &[u8]) -> Head {
        if b.len() < self.hdr() {
            return Head::ShortHeader;
        }
        let l = self.len_field(b);
        if l < self.min() {
            Head::LengthBelowHeader(l)
        } else if l > self.max() {
            Head::LengthAboveMax(l)
        } else if b.len() < l {
            Head::Partial(l)
        } else {
            Head::Complete(l)
        }
    }

    /// true when `n` bytes from the front of `b` are exactly k >= 1 complete valid frames
    fn frame_aligned(&self, b: &[u8], n: usize) -> bool {
        let mut p = 0;
        while p < n {
            match self.head(&b[p..]) {
                Head::Complete(l) => p += l,
                _ => return false,
            }
        }
        p == n
    }
}

/// The delivery loop shared by the stream decoders, with every C03 clause
/// evaluated around each decoder call.
fn run_stream<S: Side>(side: &mut S, input: &[u8], cuts: &[usize]) -> Trace {
    let mut tr = Trace::new();
    let mut buf = BytesMut::with_capacity(4096);
    // buf always equals input[consumed..delivered] (the decoders only split from the front),
    // so the buffer at the time of a call is reconstructed lazily for witnesses
    let mut consumed = 0usize;
    let mut delivered = 0usize;
    let name = side.name();
    'deliver: for chunk in chunks(input, cuts) {
        buf.extend_from_slice(chunk);
        delivered += chunk.len();
        let mut steps = 0usize;
        let mut zero_run = 0usize;
        let step_bound = buf.len() / side.min().max(1) + 64;
        loop {
            steps += 1;
            let before = buf.len();
            let b0 = &input[consumed.min(input.len())..delivered.min(input.len())];
            // judged on the decoder's real buffer; b0 (the model of it) only serves frame walks / witnesses
            let head = side.head(&buf);
            if b0.len() != buf.len() || b0[..b0.len().min(32)] != buf[..buf.len().min(32)] {
                tr.counters.push("harness:buffer-model-mismatch");
                tr.term = Term::Stopped;
                break 'deliver;
            }
            if matches!(head, Head::Complete(_)) || (name == "rtr" && head != Head::ShortHeader) {
                tr.deep = true;
            }
            let snap_n = match head {
                Head::Complete(l) => l,
                _ => before.min(side.max().min(70000)),
            };
            let snapshot = Snap { input, at: consumed, n: snap_n };
            let step = side.step(&mut buf, &mut tr, &snapshot);
            let after = buf.len();
            let eaten = before.saturating_sub(after);
            consumed += eaten;
            match step {
                Step::Panic(p, what) => {
                    tr.findings.push(panic_finding(what, &p, &snapshot.get()));
                    tr.term = Term::Stopped;
                    break 'deliver;
                }
                Step::Msg => {
                    if eaten == 0 {
                        zero_run += 1;
                        if zero_run >= ZERO_PROGRESS_LIMIT || steps > step_bound {
                            tr.findings.push(Finding {
                                sig: format!("C03/no-progress/{}", name),
                                what: format!(
                                    "{} decoder returned a message {} times in a row without consuming input (the read loop would spin forever)",
                                    name, zero_run
                                ),
                                at_buffer: snapshot.get(),
                                detail: format!("front of buffer: {:?}; buffer length stayed {}", head, before),
                            });
                            tr.term = Term::Stopped;
                            break 'deliver;
                        }
                    } else {
                        zero_run = 0;
                        match head {
                            Head::Complete(l) => {
                                if !side.frame_aligned(b0, eaten) {
                                    tr.findings.push(Finding {
                                        sig: format!("C03/progress/{}/consumed-not-frame-aligned", name),
                                        what: format!("{} decoder returned a message but consumed a byte count that is not a whole number of frames", name),
                                        at_buffer: snapshot.get(),
                                        detail: format!("first frame length {} consumed {}", l, eaten),
                                    });
                                }
                            }
                            Head::LengthBelowHeader(l) => {
                                tr.findings.push(Finding {
                                    sig: format!("C03/trichotomy/{}/length-below-header-accepted", name),
                                    what: format!("{} decoder returned a message for a frame whose length field is below the header size instead of rejecting it", name),
                                    at_buffer: snapshot.get(),
                                    detail: format!("length field {} consumed {}", l, eaten),
                                });
                            }
                            // accepting a frame longer than the protocol maximum is a protocol
                            // error but none of the statement's failure modes: counted only
                            Head::LengthAboveMax(_) => tr.counters.push("unjudged:oversize-frame-accepted"),
                            _ => {
                                tr.findings.push(Finding {
                                    sig: format!("C03/trichotomy/{}/message-from-incomplete-frame", name),
                                    what: format!("{} decoder returned a message although no complete, length-valid frame was buffered", name),
                                    at_buffer: snapshot.get(),
                                    detail: format!("front of buffer: {:?}, buffered {}", head, before),
                                });
                            }
                        }
                    }
                }
                Step::NeedMore => {
                    if eaten > 0 && !side.frame_aligned(b0, eaten) {
                        tr.findings.push(Finding {
                            sig: format!("C03/trichotomy/{}/need-more-consumed-partial-frame", name),
                            what: format!("{} decoder asked for more bytes after eating part of a frame", name),
                            at_buffer: snapshot.get(),
                            detail: format!("front of buffer: {:?}, {} -> {}", head, before, after),
                        });
                    }
                    let rest = &input[consumed.min(input.len())..delivered.min(input.len())];
                    match side.head(rest) {
                        Head::Complete(l) => {
                            let class = side.stall_class(rest);
                            tr.findings.push(Finding {
                                sig: format!("C03/no-stall/{}/{}", name, class),
                                what: format!(
                                    "{} decoder answered \"need more\" although a complete frame (valid length field, all of it buffered) is at the front of the buffer; the session wedges ({})",
                                    name, class
                                ),
                                at_buffer: rest[..l].to_vec(),
                                detail: format!("frame length {} buffered {}", l, rest.len()),
                            });
                            tr.term = Term::Stopped;
                            break 'deliver;
                        }
                        Head::LengthBelowHeader(l) => {
                            tr.findings.push(Finding {
                                sig: format!("C03/no-stall/{}/length-below-header", name),
                                what: format!(
                                    "{} decoder waits for more bytes on a header whose length field is below the header size (never rejected, can never complete)",
                                    name
                                ),
                                at_buffer: rest[..rest.len().min(64)].to_vec(),
                                detail: format!("length field {}", l),
                            });
                            tr.term = Term::Stopped;
                            break 'deliver;
                        }
                        Head::LengthAboveMax(_) => tr.counters.push("unjudged:need-more-on-oversize-length"),
                        _ => {}
                    }
                    tr.term = Term::NeedMore { residual: after };
                    break;
                }
                Step::Error(e) => {
                    tr.term = Term::Error(e);
                    break 'deliver;
                }
            }
            if steps > step_bound + ZERO_PROGRESS_LIMIT {
                tr.findings.push(Finding {
                    sig: format!("C03/no-progress/{}", name),
                    what: "decode loop exceeded its deterministic step bound".into(),
                    at_buffer: snapshot.get(),
                    detail: format!("steps {}", steps),
                });
                tr.term = Term::Stopped;
                break 'deliver;
            }
        }
    }
    tr
}

struct BgpSide<'a> {
    max_len: usize,
    codec: &'a mut PeerCodec,
    is_ebgp: bool,
}

impl Side for BgpSide<'_> {
    fn name(&self) -> &'static str {
        "bgp"
    }
    fn hdr(&self) -> usize {
        19
    }
    fn max(&self) -> usize {
        self.max_len
    }
    fn len_field(&self, b: &[u8]) -> usize {
        ((b[16] as usize) << 8) | b[17] as usize
    }
    fn stall_class(&self, _b: &[u8]) -> &'static str {
        "complete-frame"
    }
    fn step(&mut self, buf: &mut BytesMut, tr: &mut Trace, snap: &Snap) -> Step {
        let codec = &mut *self.codec;
        match guard(|| codec.try_parse(buf)) {
            Err(p) => Step::Panic(p, "PeerCodec::try_parse"),
            Ok(Ok(None)) => {
                tr.counters.push("bgp:need-more");
                Step::NeedMore
            }
            Ok(Err(n)) => {
                tr.counters.push("bgp:error");
                let code = n.notification_code();
                if !(1..=7).contains(&code) {
                    tr.findings.push(Finding {
                        sig: "C03/trichotomy/bgp/error-not-a-notification".into(),
                        what: "decoder error does not map to a NOTIFICATION code".into(),
                        at_buffer: snap.get(),
                        detail: format!("{:?}", n),
                    });
                }
                if 21 + n.notification_data().len() > self.max_len {
                    tr.counters.push("unjudged:notification-longer-than-max-message");
                }
                Step::Error(format!("{:?}", n))
            }
            Ok(Ok(Some(msg))) => {
                tr.counters.push("bgp:message");
                tr.msgs.push(fp_parsed(&msg));
                if let ParsedMessage::Update(ParsedUpdate::Routes { attrs, reach, mp_reach, unreach, mp_unreach, .. }) = &msg {
                    attr_value_decoders(attrs, tr, snap);
                    for r in reach.iter().chain(mp_reach.iter()) {
                        tr.fams.push(r.family);
                    }
                    for u in unreach.iter().chain(mp_unreach.iter()) {
                        tr.fams.push(u.family);
                    }
                }
                // the daemon always hands the message to validate_message next
                let is_ebgp = self.is_ebgp;
                match guard(move || bgp::validate_message(msg, is_ebgp).map(|it| it.collect::<Vec<_>>())) {
                    Err(p) => Step::Panic(p, "validate_message"),
                    Ok(Ok(ms)) => {
                        let mut h = 0u64;
                        for m in &ms {
                            h = h.rotate_left(7) ^ fp_message(m);
                        }
                        tr.msgs.push(h);
                        Step::Msg
                    }
                    Ok(Err(n)) => {
                        tr.counters.push("bgp:validate-error");
                        // the frame was consumed and the session ends with this NOTIFICATION
                        Step::Error(format!("validate {:?}", n))
                    }
                }
            }
        }
    }
}

/// The rx loop of `PeerSession::run_select`: append what the socket delivered
/// to `rxbuf`, then `try_parse` until it asks for more; every message goes
/// through `validate_message`; an error ends the session.
pub fn run_bgp(max_len: usize, codec: &mut PeerCodec, input: &[u8], cuts: &[usize], is_ebgp: bool) -> Trace {
    let mut side = BgpSide { max_len, codec, is_ebgp };
    run_stream(&mut side, input, cuts)
}

fn fp_rtr(m: &rpki::Message) -> u64 {
    let s = match m {
        rpki::Message::SerialNotify { session_id, serial_number } => format!("notify {} {}", session_id, serial_number),
        rpki::Message::SerialQuery { session_id, serial_number } => format!("query {} {}", session_id, serial_number),
        rpki::Message::ResetQuery => "reset-query".into(),
        rpki::Message::CacheResponse { session_id } => format!("cache-response {}", session_id),
        rpki::Message::IpPrefix(p) => format!("prefix {} {} {} {}", p.net, p.flags, p.max_length, p.as_number),
        rpki::Message::EndOfData { session_id, serial_number, refresh_interval, retry_interval, expire_interval } => {
            format!("eod {} {} {} {} {}", session_id, serial_number, refresh_interval, retry_interval, expire_interval)
        }
        rpki::Message::CacheReset => "cache-reset".into(),
        rpki::Message::ErrorReport { error_code } => format!("error-report {}", error_code),
    };
    fnv64(s.as_bytes())
}

struct RtrSide {
    codec: rpki::RtrCodec,
}

impl Side for RtrSide {
    fn name(&self) -> &'static str {
        "rtr"
    }
    fn hdr(&self) -> usize {
        8
    }
    fn max(&self) -> usize {
        u32::MAX as usize
    }
    fn len_field(&self, b: &[u8]) -> usize {
        u32::from_be_bytes([b[4], b[5], b[6], b[7]]) as usize
    }
    fn stall_class(&self, b: &[u8]) -> &'static str {
        match b.get(1).copied().unwrap_or(0) {
            0..=4 | 6..=8 | 10 => "known-pdu-type-short-length",
            9 => "router-key-pdu",
            _ => "unknown-pdu-type",
        }
    }
    fn step(&mut self, buf: &mut BytesMut, tr: &mut Trace, _snap: &Snap) -> Step {
        let codec = &mut self.codec;
        match guard(|| codec.decode(buf)) {
            Err(p) => Step::Panic(p, "RtrCodec::decode"),
            Ok(Ok(Some(m))) => {
                tr.counters.push("rtr:message");
                tr.msgs.push(fp_rtr(&m));
                Step::Msg
            }
            Ok(Ok(None)) => {
                tr.counters.push("rtr:need-more");
                Step::NeedMore
            }
            Ok(Err(e)) => {
                tr.counters.push("rtr:error");
                Step::Error(format!("{}", e))
            }
        }
    }
}

/// `tokio_util::codec::FramedRead`: after every read, call `decode` on the
/// buffer; `Some` is yielded and `decode` is called again, `None` waits for the
/// next read, `Err` ends the stream.
pub fn run_rtr(input: &[u8], cuts: &[usize]) -> Trace {
    let mut side = RtrSide { codec: rpki::RtrCodec::new() };
    run_stream(&mut side, input, cuts)
}

/// BFD control packets are datagrams: one decode call per packet.
pub fn run_bfd(input: &[u8]) -> Trace {
    let mut tr = Trace::new();
    tr.deep = input.len() >= 24 && input[3] as usize == input.len();
    match guard(|| bfd::Message::decode(input)) {
        Err(p) => {
            tr.findings.push(panic_finding("bfd::Message::decode", &p, input));
            tr.term = Term::Stopped;
        }
        Ok(Ok(m)) => {
            tr.counters.push("bfd:message");
            tr.msgs.push(fnv64(format!("{:?}", m).as_bytes()));
            // RFC 5880 §6.8.6 reception checks the statement does not name: counted, not judged
            if m.detect_multiplier == 0 {
                tr.counters.push("unjudged:bfd-accepted-detect-mult-0");
            }
            if m.my_discriminator == 0 {
                tr.counters.push("unjudged:bfd-accepted-my-discriminator-0");
            }
            if input[1] & 0x04 != 0 {
                tr.counters.push("unjudged:bfd-accepted-auth-bit");
            }
            if input[1] & 0x01 != 0 {
                tr.counters.push("unjudged:bfd-accepted-multipoint-bit");
            }
            // re-encoding what was accepted must not panic either (the daemon answers with it)
            if let Err(p) = guard(|| drop(m.encode())) {
                tr.findings.push(panic_finding("bfd::Message::encode(decoded)", &p, input));
            }
            tr.term = Term::NeedMore { residual: 0 };
        }
        Ok(Err(e)) => {
            tr.counters.push("bfd:error");
            tr.term = Term::Error(format!("{}", e));
        }
    }
    tr
}
