//! Generators shared by several monitors (filled in incrementally).
#![allow(dead_code)]
