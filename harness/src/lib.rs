//! `rbgp-verif`: engine E1 of the runtime-monitoring harness (see /verif/DESIGN.md).
//! Workload + monitor binaries live in `src/bin/cXX.rs`; shared code here.
pub mod common;
pub mod gens;
