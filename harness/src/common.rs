//! Shared runtime of the monitoring harness: PRNG, tiny JSON writer, shard
//! report (what one monitor process observed), panic capture.
//!
//! Depends on `std` only so it can be `#[path]`-included into the daemon crate
//! as well as used from the external `rbgp-verif` crate.
#![allow(dead_code, unreachable_pub)]

use std::collections::{BTreeMap, BTreeSet};
use std::fmt::Write as _;
use std::time::Instant;

// ---------------------------------------------------------------- PRNG

/// xoshiro256** seeded through SplitMix64.
#[derive(Clone)]
pub struct Rng {
    s: [u64; 4],
}

impl Rng {
    pub fn new(seed: u64) -> Self {
        let mut z = seed.wrapping_add(0x9E37_79B9_7F4A_7C15);
        let mut s = [0u64; 4];
        for v in s.iter_mut() {
            z = z.wrapping_add(0x9E37_79B9_7F4A_7C15);
            let mut x = z;
            x = (x ^ (x >> 30)).wrapping_mul(0xBF58_476D_1CE4_E5B9);
            x = (x ^ (x >> 27)).wrapping_mul(0x94D0_49BB_1331_11EB);
            *v = x ^ (x >> 31);
        }
        Rng { s }
    }
    pub fn next_u64(&mut self) -> u64 {
        let r = self.s[1].wrapping_mul(5).rotate_left(7).wrapping_mul(9);
        let t = self.s[1] << 17;
        self.s[2] ^= self.s[0];
        self.s[3] ^= self.s[1];
        self.s[1] ^= self.s[2];
        self.s[0] ^= self.s[3];
        self.s[2] ^= t;
        self.s[3] = self.s[3].rotate_left(45);
        r
    }
    pub fn next_u32(&mut self) -> u32 {
        (self.next_u64() >> 32) as u32
    }
    /// uniform in [0, n)  (n > 0)
    pub fn below(&mut self, n: u64) -> u64 {
        debug_assert!(n > 0);
        ((self.next_u64() as u128 * n as u128) >> 64) as u64
    }
    pub fn usize(&mut self, n: usize) -> usize {
        self.below(n as u64) as usize
    }
    /// inclusive range
    pub fn range(&mut self, lo: u64, hi: u64) -> u64 {
        lo + self.below(hi - lo + 1)
    }
    pub fn bool(&mut self) -> bool {
        self.next_u64() & 1 == 1
    }
    /// true with probability num/den
    pub fn chance(&mut self, num: u64, den: u64) -> bool {
        self.below(den) < num
    }
    pub fn pick<'a, T>(&mut self, xs: &'a [T]) -> &'a T {
        &xs[self.usize(xs.len())]
    }
    pub fn bytes(&mut self, n: usize) -> Vec<u8> {
        (0..n).map(|_| self.next_u64() as u8).collect()
    }
    pub fn shuffle<T>(&mut self, xs: &mut [T]) {
        for i in (1..xs.len()).rev() {
            let j = self.usize(i + 1);
            xs.swap(i, j);
        }
    }
    pub fn fork(&mut self) -> Rng {
        Rng::new(self.next_u64())
    }
}

/// FNV-1a 64 over bytes — used for "distinct case" hashes (stable across runs).
pub fn fnv64(data: &[u8]) -> u64 {
    let mut h: u64 = 0xcbf2_9ce4_8422_2325;
    for b in data {
        h ^= *b as u64;
        h = h.wrapping_mul(0x0000_0100_0000_01B3);
    }
    h
}

pub fn fnv64_str(s: &str) -> u64 {
    fnv64(s.as_bytes())
}

pub fn hex(b: &[u8]) -> String {
    let mut s = String::with_capacity(b.len() * 2);
    for x in b {
        let _ = write!(s, "{:02x}", x);
    }
    s
}

pub fn unhex(s: &str) -> Vec<u8> {
    let s = s.as_bytes();
    (0..s.len() / 2)
        .map(|i| {
            let h = (s[2 * i] as char).to_digit(16).unwrap_or(0) as u8;
            let l = (s[2 * i + 1] as char).to_digit(16).unwrap_or(0) as u8;
            (h << 4) | l
        })
        .collect()
}

// ---------------------------------------------------------------- JSON

#[derive(Clone, Debug)]
pub enum Json {
    Null,
    Bool(bool),
    Int(i128),
    Num(f64),
    Str(String),
    Arr(Vec<Json>),
    Obj(Vec<(String, Json)>),
}

impl Json {
    pub fn s<T: Into<String>>(v: T) -> Json {
        Json::Str(v.into())
    }
    pub fn i<T: Into<i128>>(v: T) -> Json {
        Json::Int(v.into())
    }
    pub fn obj(kv: Vec<(&str, Json)>) -> Json {
        Json::Obj(kv.into_iter().map(|(k, v)| (k.to_string(), v)).collect())
    }
    pub fn arr<I: IntoIterator<Item = Json>>(it: I) -> Json {
        Json::Arr(it.into_iter().collect())
    }
    pub fn strs<I: IntoIterator<Item = String>>(it: I) -> Json {
        Json::Arr(it.into_iter().map(Json::Str).collect())
    }
    pub fn render(&self) -> String {
        let mut out = String::new();
        self.write(&mut out);
        out
    }
    fn write(&self, out: &mut String) {
        match self {
            Json::Null => out.push_str("null"),
            Json::Bool(b) => out.push_str(if *b { "true" } else { "false" }),
            Json::Int(i) => {
                let _ = write!(out, "{}", i);
            }
            Json::Num(f) => {
                if f.is_finite() {
                    let _ = write!(out, "{}", f);
                } else {
                    out.push_str("null");
                }
            }
            Json::Str(s) => {
                out.push('"');
                for c in s.chars() {
                    match c {
                        '"' => out.push_str("\\\""),
                        '\\' => out.push_str("\\\\"),
                        '\n' => out.push_str("\\n"),
                        '\r' => out.push_str("\\r"),
                        '\t' => out.push_str("\\t"),
                        c if (c as u32) < 0x20 => {
                            let _ = write!(out, "\\u{:04x}", c as u32);
                        }
                        c => out.push(c),
                    }
                }
                out.push('"');
            }
            Json::Arr(a) => {
                out.push('[');
                for (i, v) in a.iter().enumerate() {
                    if i > 0 {
                        out.push(',');
                    }
                    v.write(out);
                }
                out.push(']');
            }
            Json::Obj(o) => {
                out.push('{');
                for (i, (k, v)) in o.iter().enumerate() {
                    if i > 0 {
                        out.push(',');
                    }
                    Json::Str(k.clone()).write(out);
                    out.push(':');
                    v.write(out);
                }
                out.push('}');
            }
        }
    }
}

// ---------------------------------------------------------------- parameters

/// Parameters of one monitor process, read from argv (`key=value` words) and,
/// as a fallback, from the environment (`VERIF_SEED`, `VERIF_TIER`, ...).
/// Argv is preferred so the same binaries work under Miri.
#[derive(Clone, Debug)]
pub struct Params {
    pub seed: u64,
    pub tier: String,
    pub shard: String,
    pub out: Option<String>,
    pub scale: f64,
    pub replay: Option<String>,
    pub budget_s: f64,
    pub extra: BTreeMap<String, String>,
}

impl Params {
    pub fn from_args_env() -> Params {
        let mut kv: BTreeMap<String, String> = BTreeMap::new();
        for (k, v) in std::env::vars() {
            if let Some(rest) = k.strip_prefix("VERIF_") {
                kv.insert(rest.to_lowercase(), v);
            }
        }
        for a in std::env::args().skip(1) {
            if let Some((k, v)) = a.split_once('=') {
                kv.insert(k.to_lowercase(), v.to_string());
            }
        }
        Params::from_map(kv)
    }
    pub fn from_map(mut kv: BTreeMap<String, String>) -> Params {
        let seed = kv.remove("seed").and_then(|s| s.parse().ok()).unwrap_or(1);
        let tier = kv.remove("tier").unwrap_or_else(|| "quick".into());
        let shard = kv.remove("shard").unwrap_or_else(|| "0".into());
        let out = kv.remove("out");
        let scale = kv
            .remove("scale")
            .and_then(|s| s.parse().ok())
            .unwrap_or(1.0);
        let replay = kv.remove("replay");
        let budget_s = kv
            .remove("budget_s")
            .and_then(|s| s.parse().ok())
            .unwrap_or(if tier == "thorough" { 240.0 } else { 40.0 });
        Params {
            seed,
            tier,
            shard,
            out,
            scale,
            replay,
            budget_s,
            extra: kv,
        }
    }
    pub fn thorough(&self) -> bool {
        self.tier == "thorough"
    }
    /// `quick` count or `thorough` count, multiplied by scale (for Miri etc.)
    pub fn n(&self, quick: u64, thorough: u64) -> u64 {
        let base = if self.thorough() { thorough } else { quick };
        ((base as f64 * self.scale).ceil() as u64).max(1)
    }
    pub fn get(&self, k: &str) -> Option<&str> {
        self.extra.get(k).map(|s| s.as_str())
    }
    pub fn get_u64(&self, k: &str, default: u64) -> u64 {
        self.get(k).and_then(|s| s.parse().ok()).unwrap_or(default)
    }
    pub fn flag(&self, k: &str) -> bool {
        matches!(self.get(k), Some("1") | Some("true") | Some("yes"))
    }
}

// ---------------------------------------------------------------- report

pub struct Violation {
    pub signature: String,
    pub what: String,
    pub witness: Json,
    pub count: u64,
}

/// What one monitor process observed.  Written as a shard file that the
/// python driver merges into `/verif/evidence/<id>.json`.
pub struct Report {
    pub property: String,
    pub params: Params,
    pub start: Instant,
    pub evaluations: u64,
    pub nontrivial: BTreeSet<u64>,
    pub nontrivial_overflow: u64,
    pub counters: BTreeMap<String, u64>,
    pub samples: Vec<Json>,
    pub max_samples: usize,
    pub violations: Vec<Violation>,
    pub inconclusive: Vec<String>,
    pub extra: Vec<(String, Json)>,
    pub exhaustive: Option<bool>,
}

const MAX_HASHES: usize = 400_000;

impl Report {
    pub fn new(property: &str, params: &Params) -> Report {
        Report {
            property: property.to_string(),
            params: params.clone(),
            start: Instant::now(),
            evaluations: 0,
            nontrivial: BTreeSet::new(),
            nontrivial_overflow: 0,
            counters: BTreeMap::new(),
            samples: Vec::new(),
            max_samples: 4,
            violations: Vec::new(),
            inconclusive: Vec::new(),
            extra: Vec::new(),
            exhaustive: None,
        }
    }
    pub fn elapsed(&self) -> f64 {
        self.start.elapsed().as_secs_f64()
    }
    /// true while the time budget of this process has not been used up
    pub fn in_budget(&self) -> bool {
        self.elapsed() < self.params.budget_s
    }
    pub fn eval(&mut self) {
        self.evaluations += 1;
    }
    pub fn evals(&mut self, n: u64) {
        self.evaluations += n;
    }
    /// record a distinct non-trivial case by its hash
    pub fn nontrivial(&mut self, h: u64) {
        if self.nontrivial.len() < MAX_HASHES {
            self.nontrivial.insert(h);
        } else if !self.nontrivial.contains(&h) {
            // cannot tell distinctness any more; counted conservatively as 0
            self.nontrivial_overflow += 1;
        }
    }
    pub fn count(&mut self, key: &str) {
        *self.counters.entry(key.to_string()).or_insert(0) += 1;
    }
    pub fn count_n(&mut self, key: &str, n: u64) {
        *self.counters.entry(key.to_string()).or_insert(0) += n;
    }
    pub fn max(&mut self, key: &str, v: u64) {
        let e = self.counters.entry(format!("max:{}", key)).or_insert(0);
        if v > *e {
            *e = v;
        }
    }
    pub fn want_sample(&self) -> bool {
        self.samples.len() < self.max_samples
    }
    pub fn sample(&mut self, j: Json) {
        if self.samples.len() < self.max_samples {
            self.samples.push(j);
        }
    }
    pub fn violation(&mut self, signature: &str, what: &str, witness: Json) {
        if let Some(v) = self
            .violations
            .iter_mut()
            .find(|v| v.signature == signature)
        {
            v.count += 1;
            return;
        }
        eprintln!(
            "[{}] violation signature={} what={}",
            self.property, signature, what
        );
        self.violations.push(Violation {
            signature: signature.to_string(),
            what: what.to_string(),
            witness,
            count: 1,
        });
    }
    pub fn has_violation(&self, signature: &str) -> bool {
        self.violations.iter().any(|v| v.signature == signature)
    }
    pub fn inconclusive(&mut self, why: &str) {
        if !self.inconclusive.iter().any(|w| w == why) {
            self.inconclusive.push(why.to_string());
        }
    }
    pub fn extra(&mut self, k: &str, v: Json) {
        self.extra.push((k.to_string(), v));
    }
    pub fn to_json(&self) -> Json {
        Json::obj(vec![
            ("property", Json::s(self.property.clone())),
            ("shard", Json::s(self.params.shard.clone())),
            ("seed", Json::Int(self.params.seed as i128)),
            ("tier", Json::s(self.params.tier.clone())),
            ("evaluations", Json::Int(self.evaluations as i128)),
            (
                "nontrivial_hashes",
                Json::Arr(
                    self.nontrivial
                        .iter()
                        .map(|h| Json::Str(format!("{:016x}", h)))
                        .collect(),
                ),
            ),
            (
                "nontrivial_overflow",
                Json::Int(self.nontrivial_overflow as i128),
            ),
            (
                "counters",
                Json::Obj(
                    self.counters
                        .iter()
                        .map(|(k, v)| (k.clone(), Json::Int(*v as i128)))
                        .collect(),
                ),
            ),
            ("samples", Json::Arr(self.samples.clone())),
            (
                "violations",
                Json::Arr(
                    self.violations
                        .iter()
                        .map(|v| {
                            Json::obj(vec![
                                ("signature", Json::s(v.signature.clone())),
                                ("what", Json::s(v.what.clone())),
                                ("witness", v.witness.clone()),
                                ("count", Json::Int(v.count as i128)),
                            ])
                        })
                        .collect(),
                ),
            ),
            ("inconclusive", Json::strs(self.inconclusive.clone())),
            ("extra", Json::Obj(self.extra.clone())),
            (
                "exhaustive",
                match self.exhaustive {
                    Some(b) => Json::Bool(b),
                    None => Json::Null,
                },
            ),
            ("wall_s", Json::Num(self.elapsed())),
        ])
    }
    /// Write the shard file (or stdout when no `out=`) and return the process
    /// exit code: 0 = nothing to report, 1 = violations recorded, 2 = inconclusive.
    /// The python driver, not this code, decides known-finding vs VIOLATION.
    pub fn finish(&self) -> i32 {
        let text = self.to_json().render();
        match &self.params.out {
            Some(p) => {
                if let Some(dir) = std::path::Path::new(p).parent() {
                    let _ = std::fs::create_dir_all(dir);
                }
                let tmp = format!("{}.tmp", p);
                std::fs::write(&tmp, &text).expect("write shard file");
                std::fs::rename(&tmp, p).expect("rename shard file");
            }
            None => println!("{}", text),
        }
        eprintln!(
            "[{}/{}] evaluations={} nontrivial={} violations={} inconclusive={} wall={:.1}s",
            self.property,
            self.params.shard,
            self.evaluations,
            self.nontrivial.len(),
            self.violations.len(),
            self.inconclusive.len(),
            self.elapsed()
        );
        if !self.violations.is_empty() {
            1
        } else if !self.inconclusive.is_empty() {
            2
        } else {
            0
        }
    }
}

// ---------------------------------------------------------------- panic capture

use std::cell::RefCell;
use std::sync::Once;

thread_local! {
    static LAST_PANIC: RefCell<Option<(String, String)>> = const { RefCell::new(None) };
    static CAPTURING: RefCell<bool> = const { RefCell::new(false) };
}
static HOOK: Once = Once::new();

#[derive(Clone, Debug)]
pub struct PanicInfo {
    /// `file:line` with any `/repo/` prefix stripped — stable enough for signatures
    pub location: String,
    pub message: String,
}

fn install_hook() {
    HOOK.call_once(|| {
        let prev = std::panic::take_hook();
        std::panic::set_hook(Box::new(move |info| {
            let capturing = CAPTURING.with(|c| *c.borrow());
            let loc = info
                .location()
                .map(|l| format!("{}:{}", l.file(), l.line()))
                .unwrap_or_else(|| "?".into());
            let msg = if let Some(s) = info.payload().downcast_ref::<&str>() {
                s.to_string()
            } else if let Some(s) = info.payload().downcast_ref::<String>() {
                s.clone()
            } else {
                "<non-string panic>".into()
            };
            if capturing {
                LAST_PANIC.with(|p| *p.borrow_mut() = Some((loc, msg)));
            } else {
                prev(info);
            }
        }));
    });
}

/// Run `f`, turning a panic into `Err(PanicInfo)`.  The default panic message
/// is suppressed while capturing.
pub fn guard<T, F: FnOnce() -> T>(f: F) -> Result<T, PanicInfo> {
    install_hook();
    CAPTURING.with(|c| *c.borrow_mut() = true);
    LAST_PANIC.with(|p| *p.borrow_mut() = None);
    let r = std::panic::catch_unwind(std::panic::AssertUnwindSafe(f));
    CAPTURING.with(|c| *c.borrow_mut() = false);
    match r {
        Ok(v) => Ok(v),
        Err(_) => {
            let (loc, msg) = LAST_PANIC
                .with(|p| p.borrow_mut().take())
                .unwrap_or_else(|| ("?".into(), "?".into()));
            Err(PanicInfo {
                location: strip_repo(&loc),
                message: msg,
            })
        }
    }
}

pub fn strip_repo(loc: &str) -> String {
    match loc.find("/repo/") {
        Some(i) => loc[i + 6..].to_string(),
        None => {
            // relative paths as rustc prints them for workspace members
            loc.to_string()
        }
    }
}

/// A coarse class of a panic message, for signatures (no numbers / addresses).
pub fn panic_class(msg: &str) -> &'static str {
    let m = msg;
    if m.contains("attempt to add with overflow") {
        "add-overflow"
    } else if m.contains("attempt to subtract with overflow") {
        "sub-overflow"
    } else if m.contains("attempt to multiply with overflow") {
        "mul-overflow"
    } else if m.contains("attempt to shift") {
        "shift-overflow"
    } else if m.contains("attempt to divide by zero")
        || m.contains("remainder with a divisor of zero")
    {
        "div-zero"
    } else if m.contains("out of range for slice")
        || m.contains("index out of bounds")
        || m.contains("out of bounds")
    {
        "index-oob"
    } else if m.contains("slice index starts at") {
        "slice-order"
    } else if m.contains("called `Option::unwrap()` on a `None` value") {
        "unwrap-none"
    } else if m.contains("called `Result::unwrap()` on an `Err` value") {
        "unwrap-err"
    } else if m.contains("unreachable") {
        "unreachable"
    } else if m.contains("assertion") {
        "assertion"
    } else if m.contains("capacity overflow") {
        "capacity-overflow"
    } else if m.contains("cannot advance past")
        || m.contains("advance out of bounds")
        || m.contains("split_to out of bounds")
        || m.contains("buffer")
    {
        "bytes-bounds"
    } else {
        "other"
    }
}
